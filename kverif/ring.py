"""Generic point machinery.

P : element of the free commutative Q-algebra on named indeterminates
    (dict monomial -> Fraction, monomial = sorted tuple of (name, exponent)).
R : element of its fraction field (pair of P, equality by cross multiplication).

Both deliberately *trap* (raise Trap, a TypeError) on every value-dependent
question (bool, ==, <, hash, float, int, index, abs): if a generated kingdon
function runs to completion on distinct indeterminates, its control flow did
not depend on the coefficient values, so the generic output specialises to
the output for every concrete assignment.  Structural comparison is done with
the explicit methods  same / iszero .
"""
from fractions import Fraction
import numbers


class Trap(TypeError):
    pass


def _trap(what):
    def f(self, *a, **k):
        raise Trap(f"control flow depends on coefficient value: {what} of a generic ring element")
    return f


def _const(o):
    """Exact rational for a python constant, or None."""
    if isinstance(o, bool):
        return Fraction(int(o))
    if isinstance(o, (int, Fraction)):
        return Fraction(o)
    if isinstance(o, float):
        return Fraction(o)
    if isinstance(o, numbers.Integral):
        return Fraction(int(o))
    if isinstance(o, numbers.Real):
        try:
            return Fraction(float(o))
        except Exception:
            return None
    return None


class P:
    __slots__ = ('t',)

    def __init__(self, t=None):
        self.t = t if t is not None else {}

    @staticmethod
    def var(name):
        return P({((name, 1),): Fraction(1)})

    @staticmethod
    def const(c):
        c = Fraction(c)
        return P({(): c}) if c else P()

    @staticmethod
    def lift(o):
        if isinstance(o, P):
            return o
        c = _const(o)
        if c is None:
            return NotImplemented
        return P.const(c)

    def __add__(s, o):
        o = P.lift(o)
        if o is NotImplemented:
            return o
        t = dict(s.t)
        for m, c in o.t.items():
            v = t.get(m, 0) + c
            if v:
                t[m] = v
            else:
                t.pop(m, None)
        return P(t)
    __radd__ = __add__

    def __neg__(s):
        return P({m: -c for m, c in s.t.items()})

    def __pos__(s):
        return s

    def __sub__(s, o):
        o = P.lift(o)
        if o is NotImplemented:
            return o
        return s + (-o)

    def __rsub__(s, o):
        o = P.lift(o)
        if o is NotImplemented:
            return o
        return o + (-s)

    def __mul__(s, o):
        o = P.lift(o)
        if o is NotImplemented:
            return o
        t = {}
        for m1, c1 in s.t.items():
            for m2, c2 in o.t.items():
                if not m1:
                    m = m2
                elif not m2:
                    m = m1
                else:
                    d = dict(m1)
                    for v, e in m2:
                        d[v] = d.get(v, 0) + e
                    m = tuple(sorted(d.items()))
                v = t.get(m, 0) + c1 * c2
                if v:
                    t[m] = v
                else:
                    t.pop(m, None)
        return P(t)
    __rmul__ = __mul__

    def __truediv__(s, o):
        if isinstance(o, P):
            if len(o.t) == 1 and () in o.t:
                return s * (1 / o.t[()])
            return R(s) / R(o)
        if isinstance(o, R):
            return R(s) / o
        c = _const(o)
        if c is None:
            return NotImplemented
        if c == 0:
            raise ZeroDivisionError('P / 0')
        return s * (1 / c)

    def __rtruediv__(s, o):
        return R.lift(o) / R(s)

    def __pow__(s, n, mod=None):
        if isinstance(n, float) and n == int(n):
            n = int(n)
        if not isinstance(n, int):
            raise Trap('non-integer power of a generic ring element')
        if n < 0:
            return R(s) ** n
        r = P.const(1)
        b = s
        while n:
            if n & 1:
                r = r * b
            n >>= 1
            if n:
                b = b * b
        return r

    def same(s, o):
        o = P.lift(o)
        if o is NotImplemented:
            return False
        return s.t == o.t

    def iszero(s):
        return not s.t

    def isconst(s):
        return not s.t or (len(s.t) == 1 and () in s.t)

    def constvalue(s):
        return s.t.get((), Fraction(0))

    def vars(s):
        return {v for m in s.t for v, _ in m}

    def evaluate(s, env):
        """Evaluate at a dict name -> number (Fractions stay exact)."""
        tot = 0
        for m, c in s.t.items():
            term = c
            for v, e in m:
                term = term * env[v] ** e
            tot = tot + term
        return tot

    def close(s, o, tol=1e-9):
        """Coefficient-wise comparison with relative tolerance (float-tainted operators)."""
        o = P.lift(o)
        for m in set(s.t) | set(o.t):
            a, b = s.t.get(m, 0), o.t.get(m, 0)
            if abs(a - b) > tol * max(1, abs(a), abs(b)):
                return False
        return True

    def key(s):
        """Canonical hashable form (for counting distinct results)."""
        return tuple(sorted(s.t.items()))

    def __repr__(s):
        if not s.t:
            return '0'
        out = []
        for m, c in sorted(s.t.items()):
            mon = '*'.join(v if e == 1 else f'{v}^{e}' for v, e in m)
            out.append(f'{c}*{mon}' if mon and c != 1 else (mon or str(c)))
        return ' + '.join(out)

    __bool__ = _trap('bool()')
    __eq__ = _trap('==')
    __ne__ = _trap('!=')
    __lt__ = __le__ = __gt__ = __ge__ = _trap('ordering comparison')
    __hash__ = None
    __float__ = _trap('float()')
    __int__ = _trap('int()')
    __index__ = _trap('__index__')
    __abs__ = _trap('abs()')
    __len__ = _trap('len()')


class R:
    __slots__ = ('n', 'd')

    def __init__(s, n, d=None):
        s.n = n if isinstance(n, P) else P.lift(n)
        s.d = P.const(1) if d is None else (d if isinstance(d, P) else P.lift(d))

    @staticmethod
    def var(name):
        return R(P.var(name))

    @staticmethod
    def lift(o):
        if isinstance(o, R):
            return o
        if isinstance(o, P):
            return R(o)
        c = _const(o)
        if c is None:
            return NotImplemented
        return R(P.const(c))

    def __add__(s, o):
        o = R.lift(o)
        if o is NotImplemented:
            return o
        if s.d.t == o.d.t:
            return R(s.n + o.n, s.d)
        return R(s.n * o.d + o.n * s.d, s.d * o.d)
    __radd__ = __add__

    def __neg__(s):
        return R(-s.n, s.d)

    def __pos__(s):
        return s

    def __sub__(s, o):
        o = R.lift(o)
        if o is NotImplemented:
            return o
        return s + (-o)

    def __rsub__(s, o):
        o = R.lift(o)
        if o is NotImplemented:
            return o
        return o + (-s)

    def __mul__(s, o):
        o = R.lift(o)
        if o is NotImplemented:
            return o
        return R(s.n * o.n, s.d * o.d)
    __rmul__ = __mul__

    def __truediv__(s, o):
        o = R.lift(o)
        if o is NotImplemented:
            return o
        if o.n.iszero():
            raise ZeroDivisionError('R division by zero')
        return R(s.n * o.d, s.d * o.n)

    def __rtruediv__(s, o):
        o = R.lift(o)
        if o is NotImplemented:
            return o
        return o / s

    def __pow__(s, n, mod=None):
        if isinstance(n, float) and n == int(n):
            n = int(n)
        if not isinstance(n, int):
            raise Trap('non-integer power of a generic field element')
        if n < 0:
            return R(1) / (s ** (-n))
        return R(s.n ** n, s.d ** n)

    def same(s, o):
        o = R.lift(o)
        if o is NotImplemented:
            return False
        return (s.n * o.d - o.n * s.d).iszero()

    def iszero(s):
        return s.n.iszero()

    def isone(s):
        return (s.n - s.d).iszero()

    def evaluate(s, env):
        return s.n.evaluate(env) / s.d.evaluate(env)

    def __repr__(s):
        return f'({s.n})/({s.d})'

    __bool__ = _trap('bool()')
    __eq__ = _trap('==')
    __ne__ = _trap('!=')
    __lt__ = __le__ = __gt__ = __ge__ = _trap('ordering comparison')
    __hash__ = None
    __float__ = _trap('float()')
    __int__ = _trap('int()')
    __index__ = _trap('__index__')
    __abs__ = _trap('abs()')


def same(a, b):
    """Structural/exact equality across P, R and plain exact numbers."""
    if isinstance(a, R) or isinstance(b, R):
        a2, b2 = R.lift(a), R.lift(b)
        if a2 is NotImplemented or b2 is NotImplemented:
            return False
        return a2.same(b2)
    if isinstance(a, P) or isinstance(b, P):
        a2, b2 = P.lift(a), P.lift(b)
        if a2 is NotImplemented or b2 is NotImplemented:
            return False
        return a2.same(b2)
    return a == b


def iszero(a):
    if isinstance(a, (P, R)):
        return a.iszero()
    return a == 0
