"""Boring reference Clifford algebra over *words of generators*.

A basis blade is a sorted tuple of generator positions 0..d-1; products are
computed by concatenating the words, bubble-sorting while counting
transpositions and contracting equal neighbours with the metric entry.  Shares
no code or idea with kingdon's string based _swap_blades nor with its bit tricks.

A reference multivector is a dict  {sorted tuple: coefficient}  (absent = 0);
coefficients are any commutative ring elements (Fraction, ring.P, ring.R, float).
"""
from fractions import Fraction
from itertools import combinations

from .ring import iszero, same


def sort_word(word):
    """Bubble sort a word of generator positions; return (parity sign, sorted list with duplicates kept)."""
    lst = list(word)
    sign = 1
    changed = True
    while changed:
        changed = False
        for i in range(len(lst) - 1):
            if lst[i] > lst[i + 1]:
                lst[i], lst[i + 1] = lst[i + 1], lst[i]
                sign = -sign
                changed = True
    return sign, lst


def word_mul(word, metric):
    """Product of a word of generators -> (sign in {1,-1,0}, sorted tuple without repetitions)."""
    sign, lst = sort_word(word)
    out = []
    i = 0
    while i < len(lst):
        if i + 1 < len(lst) and lst[i] == lst[i + 1]:
            sign *= metric[lst[i]]
            i += 2
        else:
            out.append(lst[i])
            i += 1
    return sign, tuple(out)


class Ref:
    """Reference algebra: d generators at positions 0..d-1 with metric[i] in {1,-1,0}.
    `start` is the label of position 0 (labels are hex digits as kingdon writes them)."""

    def __init__(self, metric, start=1):
        self.metric = tuple(int(m) for m in metric)
        self.d = len(self.metric)
        self.start = start
        self.full = tuple(range(self.d))
        self.blades = [c for g in range(self.d + 1) for c in combinations(range(self.d), g)]
        self._mul = {}
        # orientation of the pseudoscalar used by hodge/polarity/rp; may be set to -1 for custom bases
        self.jsign = 1

    # ---- names -------------------------------------------------------
    def name_to_blade(self, name):
        """'e31' -> (sign, sorted tuple of positions).  Letters are hex digits minus start."""
        word = [int(c, 16) - self.start for c in name[1:]]
        for g in word:
            if not (0 <= g < self.d):
                raise KeyError(name)
        return word_mul(word, self.metric)

    def default_name(self, blade):
        return 'e' + ''.join(format(g + self.start, 'x') for g in blade)

    # ---- blade products ------------------------------------------------
    def bmul(self, A, B):
        r = self._mul.get((A, B))
        if r is None:
            r = self._mul[(A, B)] = word_mul(A + B, self.metric)
        return r

    # ---- linear structure ----------------------------------------------
    @staticmethod
    def clean(x):
        return {k: v for k, v in x.items() if not iszero(v)}

    @staticmethod
    def add(x, y):
        r = dict(x)
        for k, v in y.items():
            r[k] = r[k] + v if k in r else v
        return Ref.clean(r)

    @staticmethod
    def neg(x):
        return {k: -v for k, v in x.items()}

    @staticmethod
    def sub(x, y):
        return Ref.add(x, Ref.neg(y))

    @staticmethod
    def scale(x, c):
        return Ref.clean({k: v * c for k, v in x.items()})

    @staticmethod
    def equal(x, y, eq=same):
        for k in set(x) | set(y):
            a, b = x.get(k, 0), y.get(k, 0)
            if not eq(a, b):
                return False
        return True

    def scalar(self, c):
        return Ref.clean({(): c})

    # ---- products --------------------------------------------------------
    def product(self, x, y, keep=None):
        """Bilinear extension of the blade product; keep(ga, gb, gout) filters blade pairs by grades."""
        r = {}
        for A, a in x.items():
            for B, b in y.items():
                s, C = self.bmul(A, B)
                if s == 0:
                    continue
                if keep is not None and not keep(len(A), len(B), len(C)):
                    continue
                t = a * b if s > 0 else -(a * b)
                r[C] = r[C] + t if C in r else t
        return Ref.clean(r)

    def gp(self, x, y):
        return self.product(x, y)

    def op(self, x, y):
        return self.product(x, y, lambda r, s, o: o == r + s)

    def ip(self, x, y):
        return self.product(x, y, lambda r, s, o: o == abs(r - s))

    def lc(self, x, y):
        return self.product(x, y, lambda r, s, o: o == s - r)

    def rc(self, x, y):
        return self.product(x, y, lambda r, s, o: o == r - s)

    def sp(self, x, y):
        return self.product(x, y, lambda r, s, o: o == 0)

    def cp(self, x, y):
        return Ref.scale(Ref.sub(self.gp(x, y), self.gp(y, x)), Fraction(1, 2))

    def acp(self, x, y):
        return Ref.scale(Ref.add(self.gp(x, y), self.gp(y, x)), Fraction(1, 2))

    # ---- involutions -------------------------------------------------------
    @staticmethod
    def _inv(x, f):
        return {k: (-v if f(len(k)) % 2 else v) for k, v in x.items()}

    def reverse(self, x):
        return self._inv(x, lambda k: k * (k - 1) // 2)

    def involute(self, x):
        return self._inv(x, lambda k: k)

    def conjugate(self, x):
        return self._inv(x, lambda k: k * (k + 1) // 2)

    def grade(self, x, grades):
        return {k: v for k, v in x.items() if len(k) in grades}

    # ---- duality -----------------------------------------------------------
    def pss(self):
        return {self.full: self.jsign}

    def _hodge_sign(self, E):
        """c with  E ^ (c * complement(E)) = J  (J = jsign * e_full)."""
        C = tuple(g for g in self.full if g not in E)
        s, _ = sort_word(E + C)
        return self.jsign * s, C

    def hodge(self, x):
        r = {}
        for E, v in x.items():
            c, C = self._hodge_sign(E)
            r[C] = v * c
        return r

    def unhodge(self, x):
        # inverse map of hodge: hodge(E) = c*C  =>  unhodge(C) = c*E  (c = +-1)
        r = {}
        for C, v in x.items():
            E = tuple(g for g in self.full if g not in C)
            c, _ = self._hodge_sign(E)
            r[E] = v * c
        return r

    def pss_sq(self):
        s, _ = self.bmul(self.full, self.full)
        return s  # jsign**2 == 1

    def polarity(self, x):
        s = self.pss_sq()
        if s == 0:
            raise ZeroDivisionError
        jinv = {self.full: self.jsign * s}  # J^-1 = J / (J*J)
        return self.gp(x, jinv)

    def unpolarity(self, x):
        return self.gp(x, self.pss())

    def rp(self, x, y):
        return self.unhodge(self.op(self.hodge(x), self.hodge(y)))

    # ---- composites ----------------------------------------------------------
    def sw(self, x, y):
        return self.gp(self.gp(x, y), self.reverse(x))

    def proj(self, x, y):
        return self.gp(self.ip(x, y), self.reverse(y))

    def normsq(self, x):
        return self.gp(x, self.reverse(x))

    def pow(self, x, n):
        r = self.scalar(1)
        for _ in range(n):
            r = self.gp(r, x)
        return r

    def outerexp_terms(self, x):
        terms = [self.scalar(1), dict(x)]
        k = 2
        while k <= self.d:
            w = self.op(terms[-1], x)
            w = Ref.scale(w, Fraction(1, k))
            if not w:
                break
            terms.append(w)
            k += 1
        return terms

    def outerexp(self, x):
        r = {}
        for t in self.outerexp_terms(x):
            r = Ref.add(r, t)
        return r

    def outersin(self, x):
        r = {}
        for t in self.outerexp_terms(x)[1::2]:
            r = Ref.add(r, t)
        return r

    def outercos(self, x):
        r = {}
        for t in self.outerexp_terms(x)[0::2]:
            r = Ref.add(r, t)
        return r

    # ---- inverse by exact linear algebra ---------------------------------------
    def left_mul_matrix(self, x):
        """Matrix of y -> x*y in the blade basis (list of rows), entries in the coefficient ring."""
        idx = {b: i for i, b in enumerate(self.blades)}
        n = len(self.blades)
        M = [[0] * n for _ in range(n)]
        for A, a in x.items():
            for B in self.blades:
                s, C = self.bmul(A, B)
                if s:
                    M[idx[C]][idx[B]] = M[idx[C]][idx[B]] + (a if s > 0 else -a)
        return M

    def inverse(self, x):
        """Exact two sided inverse over Fractions, or None if x is singular."""
        n = len(self.blades)
        M = self.left_mul_matrix({k: Fraction(v) for k, v in x.items()})
        rhs = [Fraction(0)] * n
        rhs[0] = Fraction(1)
        A = [row[:] + [rhs[i]] for i, row in enumerate(M)]
        r = 0
        piv = []
        for c in range(n):
            p = next((i for i in range(r, n) if A[i][c] != 0), None)
            if p is None:
                continue
            A[r], A[p] = A[p], A[r]
            pv = A[r][c]
            A[r] = [v / pv for v in A[r]]
            for i in range(n):
                if i != r and A[i][c] != 0:
                    f = A[i][c]
                    A[i] = [a - f * b for a, b in zip(A[i], A[r])]
            piv.append(c)
            r += 1
        if r < n:
            return None  # left multiplication is singular => x is not invertible
        y = {self.blades[c]: A[i][n] for i, c in enumerate(piv) if A[i][n] != 0}
        return y


def ref_from_config(cfg):
    """cfg: dict with either p,q,r or signature; optional start_index, basis.
    Returns the Ref the *documentation* promises for that construction."""
    if cfg.get('signature') is not None:
        sig = list(cfg['signature'])
        r = sum(1 for s in sig if s == 0)
    else:
        p, q, r = cfg.get('p', 0), cfg.get('q', 0), cfg.get('r', 0)
        sig = [0] * r + [1] * p + [-1] * q if r == 1 else [1] * p + [-1] * q + [0] * r
    basis = cfg.get('basis')
    if basis:
        start = min(int(b[1:], 16) for b in basis if len(b) == 2)
    elif cfg.get('start_index') is not None:
        start = cfg['start_index']
    else:
        start = 0 if r == 1 else 1
    ref = Ref(sig, start=start)
    if basis:
        s, _ = ref.name_to_blade(basis[-1])
        ref.jsign = s
    return ref


def make_algebra(cfg, **options):
    """Construct the kingdon Algebra for cfg (same dict as ref_from_config)."""
    from kingdon import Algebra
    kw = dict(options)
    if cfg.get('signature') is not None:
        kw['signature'] = list(cfg['signature'])
    else:
        kw.update(p=cfg.get('p', 0), q=cfg.get('q', 0), r=cfg.get('r', 0))
    if cfg.get('basis'):
        kw['basis'] = list(cfg['basis'])
    elif cfg.get('start_index') is not None:
        kw['start_index'] = cfg['start_index']
    try:
        return Algebra(**kw)
    except Exception as e:
        raise ConstructionFailed(cfg, options, e)


class ConstructionFailed(Exception):
    """An admissible configuration could not be constructed (every enumerated configuration is admissible)."""

    def __init__(self, cfg, options, err):
        super().__init__(f'{cfg} {options}: {type(err).__name__}: {err}')
        self.cfg, self.options, self.err = cfg, options, err


def mv_to_ref(alg, ref, mv):
    """kingdon multivector -> reference dict (named blade -> sign x sorted word)."""
    r = {}
    for k, v in mv.items():
        s, B = ref.name_to_blade(alg.bin2canon[k])
        t = v if s > 0 else -v
        r[B] = r[B] + t if B in r else t
    return Ref.clean(r)


def key_to_blade(alg, ref, k):
    return ref.name_to_blade(alg.bin2canon[k])
