"""Explicit-state breadth-first search over call histories of a live object.

A *world* is built by  make(world_id) -> ctx ; an alphabet symbol is  (name, fn(ctx) -> value) .
Live objects are never copied: a state is reached by replaying its (shortest) history on a fresh world.
Every transition is therefore an execution of the implementation (traces_validated = paths explored).

Property modules provide (module level, so that workers can import them):
    WORLDS                         dict world_id -> description
    make_world(world_id)           -> ctx
    alphabet(world_id)             -> ordered dict name -> fn(ctx)
    abstraction(ctx)               -> hashable canonical state (3.3 of DESIGN.md)
    normalise(value)               -> comparable, picklable outcome payload
    snapshot(ctx)                  -> deep snapshot of operands (compared before/after each call)
"""
import hashlib
import importlib


def code_digest(f, _depth=0):
    """Digest of a python function's compiled code (not of its name or linecache entry, which kingdon overwrites)."""
    f = getattr(f, '__wrapped_by_verif__', f)
    c = getattr(f, '__code__', None)
    if c is None:
        return 'nocode:' + type(f).__name__
    h = hashlib.sha1()

    def feed(code):
        h.update(code.co_code)
        h.update(repr(code.co_names).encode())
        h.update(repr(code.co_varnames).encode())
        h.update(str(code.co_argcount).encode())
        for k in code.co_consts:
            if hasattr(k, 'co_code'):
                feed(k)
            else:
                h.update(repr(k).encode())
    feed(c)
    return h.hexdigest()[:12]


def digest(obj):
    return hashlib.sha1(repr(obj).encode()).hexdigest()[:16]


def outcome(fn, ctx, normalise):
    try:
        return ('ok', normalise(fn(ctx)))
    except Exception as e:
        return ('exc', type(e).__name__)


def fresh_outcomes(modname, world_id):
    mod = importlib.import_module(modname)
    out = {}
    for name, fn in mod.alphabet(world_id).items():
        out[name] = outcome(fn, mod.make_world(world_id), mod.normalise)
    return out


def expand(task):
    """Worker: task = (modname, world_id, history tuple, fresh outcomes).  For every symbol a: build a fresh
    world, replay history, snapshot, run a, check invariants, abstract.  Returns list of per-symbol records."""
    modname, world_id, hist, fresh = task
    mod = importlib.import_module(modname)
    alpha = mod.alphabet(world_id)
    recs = []
    for name, fn in alpha.items():
        ctx = mod.make_world(world_id)
        returned = []          # (value object, snapshot) of everything returned so far on this path
        for sym in hist:
            try:
                v = alpha[sym](ctx)
                returned.append((v, mod.freeze(v)))
            except Exception:
                pass
        before = mod.snapshot(ctx)
        out = outcome(fn, ctx, mod.normalise)
        problems = []
        # the module may compute the expected outcome from the current world (after the call, so that the oracle's own
        # calls cannot prepare anything for the implementation); default: the fresh-world outcome
        want = mod.expected(name, ctx, fresh) if hasattr(mod, 'expected') else fresh[name]
        if out != want:
            problems.append(('result', want, out))
        after = mod.snapshot(ctx)
        if after != before:
            problems.append(('operand-mutated', before, after))
        for v, snap in returned:
            if mod.freeze(v) != snap:
                problems.append(('returned-value-mutated', snap, mod.freeze(v)))
                break
        recs.append((name, digest(mod.abstraction(ctx)), out, problems))
    return recs


def bfs(ctx, modname, world_id, max_depth, on_violation, max_states=None):
    """Level-synchronous BFS to fixpoint (or depth cap). ctx = harness Ctx (for the worker pool)."""
    mod = importlib.import_module(modname)
    fresh = fresh_outcomes(modname, world_id)
    init = digest(mod.abstraction(mod.make_world(world_id)))
    seen = {init: ()}
    frontier = [()]
    transitions = 0
    depth = 0
    outcomes = set()
    capped = None
    while frontier:
        if depth >= max_depth:
            capped = f'depth cap {max_depth} reached with {len(frontier)} unexpanded states'
            break
        if ctx.time_left() < 0:
            capped = f'time budget reached at depth {depth} with {len(frontier)} unexpanded states'
            break
        tasks = [(modname, world_id, h, fresh) for h in frontier]
        results = ctx.map('explore_expand', tasks)
        nxt = []
        for h, recs in zip(frontier, results):
            for name, key, out, problems in recs:
                transitions += 1
                outcomes.add((name, repr(out)))
                for p in problems:
                    on_violation(world_id, h + (name,), p, fresh[name], out)
                if key not in seen:
                    seen[key] = h + (name,)
                    nxt.append(h + (name,))
        frontier = nxt
        depth += 1
        if max_states and len(seen) > max_states:
            capped = f'state cap {max_states} reached at depth {depth}'
            break
    return {'states': len(seen), 'transitions': transitions, 'depth': max(len(v) for v in seen.values()),
            'capped': capped, 'outcomes': outcomes, 'fresh': fresh,
            'sample_path': max(seen.values(), key=len)}
