"""Framework self-test (MANIFEST.setup_cmd): nothing is built ahead of time; this only checks that the
framework's own trusted pieces behave - the reference oracle against hand-computed tables, the ring
axioms of P/R on a small grid, the enumerator counts, the scheduler on a toy race, the BFS on a toy cache."""
import os
import sys
from fractions import Fraction
from itertools import product


def t_ring():
    from .ring import P, R, Trap, same
    x, y, z = P.var('x'), P.var('y'), P.var('z')
    elems = [P.const(0), P.const(1), P.const(-2), x, y, x + y, x * y - z, x * x + 1, (x + y) * (x - y)]
    for a, b, c in product(elems, repeat=3):
        assert same(a + b, b + a) and same(a * b, b * a)
        assert same((a + b) + c, a + (b + c)) and same((a * b) * c, a * (b * c))
        assert same(a * (b + c), a * b + a * c)
    assert same((x + y) ** 2, x * x + 2 * x * y + y * y)
    assert same(x / 2 + x / 2, x)
    for op in (bool, float, int, hash, abs):
        try:
            op(x)
        except TypeError:
            pass
        else:
            raise AssertionError(f'{op} did not trap')
    try:
        x == y
    except Trap:
        pass
    else:
        raise AssertionError('== did not trap')
    rx, ry = R.var('x'), R.var('y')
    assert (rx / ry * ry).same(rx) and ((1 / rx) + (1 / ry)).same((rx + ry) / (rx * ry))
    assert (rx ** -2).same(1 / (rx * rx))
    env = {'x': Fraction(2), 'y': Fraction(3), 'z': Fraction(5)}
    assert ((x * y - z) ** 2).evaluate(env) == 1


def t_oracle():
    from .oracle import Ref, word_mul
    r = Ref([1, 1, 1])
    assert word_mul((0, 1, 0, 1), r.metric) == (-1, ())          # (e1e2)^2 = -1
    assert r.bmul((0, 1), (1, 2)) == (1, (0, 2))                  # e12 e23 = e13
    assert r.bmul((1,), (0,)) == (-1, (0, 1))
    pga = Ref([0, 1, 1], start=0)
    assert pga.bmul((0,), (0,)) == (0, ())
    assert pga.name_to_blade('e20') == (-1, (0, 2))
    # hodge: E ^ hodge(E) = J
    for ref in (r, pga, Ref([1, -1, 0, 1])):
        for E in ref.blades:
            h = ref.hodge({E: 1})
            w = ref.op({E: 1}, h)
            assert w == {ref.full: 1}, (E, h, w)
            assert ref.unhodge(h) == {E: 1}
    # inverse
    x = {(): Fraction(1), (0,): Fraction(2), (0, 1): Fraction(3)}
    y = r.inverse(x)
    assert r.gp(x, y) == {(): 1} and r.gp(y, x) == {(): 1}
    assert r.inverse({(): Fraction(1), (0,): Fraction(1)}) is None  # 1+e1 is a zero divisor


def t_spaces():
    from . import spaces
    assert len(spaces.sig(3)) == 27 and len(spaces.pqr(3)) == 10
    for n in (1, 2, 4):
        assert len(spaces.T(n)) == spaces.count_T(n)
    assert spaces.count_T(4) == 65 and spaces.count_T(8) == 109601
    for d in (1, 2, 3):
        bs = spaces.all_bases(d)
        assert len(bs) == spaces.count_all_bases(d) == len({tuple(b) for b in bs}), d
    assert spaces.count_all_bases(3) == 1728
    assert spaces.bases_by_deviation(3, 0) == [spaces.default_basis(3)]


def main():
    from . import bootstrap
    bootstrap.install()
    tests = [t_ring, t_oracle, t_spaces]
    try:
        from .selftest_engines import TESTS
        tests += TESTS
    except ImportError:
        pass
    for d in ('evidence', 'replays'):
        os.makedirs(os.path.join(os.path.dirname(os.path.dirname(os.path.abspath(__file__))), d), exist_ok=True)
    for t in tests:
        t()
        print('selftest ok:', t.__name__)
    return 0
