"""Toy systems with seeded bugs, used by the self test to show that the engines can fail."""


# ---- scheduler toy: a lost update ---------------------------------------------------------------------------------
def make_counter_bodies():
    c = [0]

    def body():
        tmp = c[0]
        tmp = tmp + 1
        c[0] = tmp
        return None
    make_counter_bodies.cell = c
    return [body, body]


# ---- BFS toy: a cache keyed by the *set* of keys although the cached value depends on their order --------------------
class ToyCache:
    def __init__(self, buggy):
        self.buggy = buggy
        self.cache = {}

    def call(self, keys):
        k = frozenset(keys) if self.buggy else tuple(keys)
        if k not in self.cache:
            self.cache[k] = tuple(keys)          # "generated function": remembers the order it was generated for
        order = self.cache[k]
        return tuple(order.index(x) for x in keys)   # correct answer is always (0, 1, ...)


WORLDS = {'toy-bug': True, 'toy-ok': False}


def make_world(world_id):
    return {'c': ToyCache(WORLDS[world_id])}


def alphabet(world_id):
    return {'ab': lambda w: w['c'].call(('a', 'b')), 'ba': lambda w: w['c'].call(('b', 'a')), 'c': lambda w: w['c'].call(('c',))}


def abstraction(w):
    return tuple(sorted((tuple(sorted(k)) if isinstance(k, frozenset) else k, v) for k, v in w['c'].cache.items()))


def normalise(v):
    return v


def freeze(v):
    return v


def snapshot(w):
    return ()


def explore_expand(task):
    from .explore import expand
    return expand(task)
