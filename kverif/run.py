"""Entry point:  python -m kverif.run <Cxx> <quick|thorough>  |  <Cxx> --replay <file>  |  selftest"""
import os
import sys

sys.path.insert(0, os.path.dirname(os.path.dirname(os.path.abspath(__file__))))


def main(argv):
    import faulthandler, signal
    faulthandler.register(signal.SIGUSR1, all_threads=True)
    if not argv:
        print(__doc__)
        return 2
    if argv[0] == 'selftest':
        from kverif import selftest
        return selftest.main()
    pid = argv[0]
    from kverif import harness
    if '--replay' in argv:
        path = argv[argv.index('--replay') + 1]
        return harness.run_property(pid, 'quick', replay=path)
    tier = argv[1] if len(argv) > 1 else os.environ.get('VERIF_TIER', 'quick')
    if tier not in ('quick', 'thorough'):
        print('tier must be quick or thorough')
        return 2
    return harness.run_property(pid, tier)


if __name__ == '__main__':
    sys.exit(main(sys.argv[1:]))
