"""Make `import kingdon` load the *current working tree* of the repository, always from source.

A meta-path finder for the package `kingdon` compiles every module from its
.py file on each process start (no .pyc is read or written), so a stale
byte-code cache can never hide an edit.  The run aborts (exit 2 in the caller)
unless kingdon.__file__ is under the repository root.
"""
import importlib.abc
import importlib.machinery
import importlib.util
import os
import sys
import warnings

REPO = os.environ.get('KINGDON_REPO', '/repo')


class _SourceOnlyLoader(importlib.machinery.SourceFileLoader):
    def get_code(self, fullname):
        path = self.get_filename(fullname)
        return self.source_to_code(self.get_data(path), path)


class _Finder(importlib.abc.MetaPathFinder):
    def find_spec(self, fullname, path=None, target=None):
        if fullname != 'kingdon' and not fullname.startswith('kingdon.'):
            return None
        parts = fullname.split('.')
        base = os.path.join(REPO, *parts)
        if os.path.isdir(base) and os.path.isfile(os.path.join(base, '__init__.py')):
            fn = os.path.join(base, '__init__.py')
            return importlib.util.spec_from_file_location(
                fullname, fn, loader=_SourceOnlyLoader(fullname, fn), submodule_search_locations=[base])
        fn = base + '.py'
        if os.path.isfile(fn):
            return importlib.util.spec_from_file_location(fullname, fn, loader=_SourceOnlyLoader(fullname, fn))
        return None


_installed = False


def install():
    global _installed
    if _installed:
        return
    _installed = True
    sys.dont_write_bytecode = True
    sys.meta_path.insert(0, _Finder())
    warnings.simplefilter('ignore')
    os.environ.setdefault('KINGDON_VERIF', '1')
    import kingdon
    f = os.path.realpath(kingdon.__file__)
    if not f.startswith(os.path.realpath(REPO) + os.sep):
        raise SystemExit(f'framework error: kingdon imported from {f}, not from {REPO}')
