"""Helpers shared by the property drivers."""
from fractions import Fraction

from .ring import P, R, same, iszero, Trap


def MV():
    from kingdon import MultiVector
    return MultiVector


def gmv(alg, keys, prefix, cls=P):
    """Multivector with one distinct indeterminate per stored blade (the generic point).
    The key tuple is a *fresh* object every time (like the results of real operations), so that anything keyed on the
    identity of an operand's key tuple sees objects that are created, dropped and re-allocated."""
    return MV().fromkeysvalues(alg, tuple(list(keys)), [cls.var(f'{prefix}{k}') for k in keys])


def nmv(alg, keys, values):
    return MV().fromkeysvalues(alg, tuple(list(keys)), list(values) if not hasattr(values, 'shape') else values)


def mvdict(mv):
    """{key: coefficient}; a key stored twice is reported through the second return value."""
    d = {}
    dup = False
    for k, v in zip(mv.keys(), mv.values()):
        if k in d:
            dup = True
            d[k] = d[k] + v
        else:
            d[k] = v
    return d, dup


def eq_elem(got, exp, eq=same):
    """Compare two {key: coeff} dicts as algebra elements (absent = 0). Returns list of differing keys."""
    bad = []
    for k in set(got) | set(exp):
        a = got.get(k, 0)
        b = exp.get(k, 0)
        if not eq(a, b):
            bad.append(k)
    return sorted(bad)


def close(a, b, tol=1e-9):
    if isinstance(a, (P, R)) or isinstance(b, (P, R)):
        if not isinstance(a, R) and not isinstance(b, R):
            a2, b2 = P.lift(a), P.lift(b)
            if a2 is not NotImplemented and b2 is not NotImplemented:
                return a2.close(b2, tol)
        return same(a, b)
    try:
        if hasattr(a, 'shape') or hasattr(b, 'shape'):
            import numpy as np
            return bool(np.allclose(np.asarray(a, dtype=complex), np.asarray(b, dtype=complex), rtol=tol, atol=tol))
        return abs(complex(a) - complex(b)) <= tol * max(1.0, abs(complex(a)), abs(complex(b)))
    except Exception:
        return a == b


def show(d):
    """Short printable form of an element dict."""
    return '{' + ', '.join(f'{k}: {v!r}' for k, v in sorted(d.items(), key=lambda kv: str(kv[0]))) + '}'


def cfg_name(cfg):
    if cfg.get('signature') is not None:
        s = 'sig' + ''.join({1: '+', -1: '-', 0: '0'}[x] for x in cfg['signature'])
    else:
        s = f"pqr{cfg.get('p', 0)}{cfg.get('q', 0)}{cfg.get('r', 0)}"
    if cfg.get('start_index') is not None:
        s += f"@{cfg['start_index']}"
    if cfg.get('basis'):
        s += ':' + ','.join(cfg['basis'])
    return s


def cfg_repro(cfg):
    """Python source constructing the algebra of cfg."""
    args = []
    if cfg.get('signature') is not None:
        args.append(f"signature={list(cfg['signature'])}")
    else:
        args.append(f"{cfg.get('p', 0)}, {cfg.get('q', 0)}, {cfg.get('r', 0)}")
    if cfg.get('basis'):
        args.append(f"basis={list(cfg['basis'])}")
    elif cfg.get('start_index') is not None:
        args.append(f"start_index={cfg['start_index']}")
    for k, v in cfg.get('options', {}).items():
        args.append(f'{k}={v!r}')
    return f"Algebra({', '.join(args)})"


class Result:
    """Accumulates the outcome of one shard."""

    def __init__(self):
        self.evals = 0
        self.nontrivial = 0
        self.skipped = 0
        self.violations = []
        self.samples = []
        self.extra = {}
        self._keys = set()
        self.states = 0
        self.transitions = 0
        self.traces = 0
        self.outcomes = set()

    def count(self, name, n=1):
        self.extra[name] = self.extra.get(name, 0) + n

    def sample(self, s):
        if len(self.samples) < 2:
            self.samples.append(s)

    def violate(self, v):
        """Keep only the first (= simplest, cases are enumerated simplest first) violation per cause."""
        if v['key'] not in self._keys:
            self._keys.add(v['key'])
            self.violations.append(v)
        self.count('violating_cases')

    def asdict(self):
        return {'evals': self.evals, 'nontrivial': self.nontrivial, 'skipped': self.skipped,
                'violations': self.violations, 'samples': self.samples, 'extra': self.extra,
                'states': self.states, 'transitions': self.transitions, 'traces': self.traces,
                'outcomes': sorted(self.outcomes)}


def run_sequence(run_one, shard):
    """A shard that is a *sequence* of sub-shards executed in one process, in order: module-level state shared by all
    algebras (a cache keyed by blade pairs or by dimension only) makes results depend on which algebras were used
    before, so algebras of equal dimension and different metric are visited one after the other, in two orders."""
    tot = None
    for sub in shard['seq']:
        out = run_one(sub)
        if tot is None:
            tot = out
        else:
            for k in ('evals', 'nontrivial', 'skipped', 'states', 'transitions', 'traces'):
                tot[k] = tot.get(k, 0) + out.get(k, 0)
            tot['violations'] += out['violations']
            for k, v in out.get('extra', {}).items():
                if isinstance(v, (int, float)):
                    tot['extra'][k] = tot['extra'].get(k, 0) + v
    for v in tot['violations']:
        v['case'] = {'shard': shard}
        v['key'] = v['key'] + ':after-other-algebras'
    # a violation that also occurs without the history is reported by the ordinary strata under its own key
    return tot
