"""Reference front end for C20: a literal Python port of the decode / encode / report logic of kingdon/graph.js.

    toElement(o): 'mv' bytes (DataView) -> Float64Array; with 'keys': zero vector of len(key2idx) filled through key2idx[k];
                  without keys: the values as they are (ganja reads them in canonical blade order)
    decode(x)   : object with 'mv' -> toElement; array -> map(decode); anything else unchanged
    encode(x)   : Element -> {'mv': [...x]}; array -> map(encode)
    report      : draggable_points_idxs.map(i => canvas.value[i])  encoded
"""
import struct


class Element(list):
    """ganja Element: the full list of 2^d coefficients in canonical blade order."""
    pass


def to_element(o, key2idx):
    vals = o['mv']
    if isinstance(vals, (bytes, bytearray, memoryview)):
        raw = bytes(vals)
        vals = list(struct.unpack('<%dd' % (len(raw) // 8), raw[:8 * (len(raw) // 8)]))
    if 'keys' in o:
        values = [0] * len(key2idx)
        for j, k in enumerate(o['keys']):
            values[key2idx[k]] = vals[j]
        return Element(values)
    return Element(list(vals))


def decode(x, key2idx):
    if isinstance(x, dict) and 'mv' in x:
        return to_element(x, key2idx)
    if isinstance(x, (list, tuple)):          # JSON arrays
        return [decode(v, key2idx) for v in x]
    return x


def encode(x):
    if isinstance(x, Element):
        return {'mv': list(x)}
    if isinstance(x, list):
        return [encode(v) for v in x]
    return x


def report(values, idxs):
    """What graph.js assigns to model.draggable_points: the current canvas values at the draggable indices."""
    return encode([values[i] for i in idxs])
