"""Self tests of the two exploration engines: each must find a seeded bug in a toy system (and must not find one in
the repaired toy) - an engine that has never failed has not been shown to work."""
import os
import time


def t_scheduler():
    from . import sched, toy
    match = lambda fn: os.path.basename(fn) == 'toy.py'

    def observe(run):
        return toy.make_counter_bodies.cell[0]
    s0 = sched.explore_subtree(toy.make_counter_bodies, observe, [], 0, match)
    s1 = sched.explore_subtree(toy.make_counter_bodies, observe, [], 1, match)
    assert set(s0['outcomes']) == {2}, s0['outcomes']                  # no preemption: no lost update
    assert 1 in s1['outcomes'] and 2 in s1['outcomes'], s1['outcomes']  # one preemption exposes it
    assert s1['divergences'] == 0
    # replaying the failing schedule twice gives the same observation
    bad = s1['first'][1]
    for _ in range(2):
        sched.Run(toy.make_counter_bodies(), bad, match).run()
        assert toy.make_counter_bodies.cell[0] == 1
    # an out-of-range choice is a hard divergence
    try:
        sched.Run(toy.make_counter_bodies(), [5], match).run()
    except sched.Divergence:
        pass
    else:
        raise AssertionError('divergence not detected')


class _Ctx:
    def __init__(self):
        self.t0 = time.time()

    def time_left(self):
        return 60

    def map(self, fname, items):
        from . import toy
        return [getattr(toy, fname)(it) for it in items]


def t_bfs():
    from . import explore
    found = {}
    for wid in ('toy-bug', 'toy-ok'):
        viol = []
        r = explore.bfs(_Ctx(), 'kverif.toy', wid, max_depth=6, on_violation=lambda w, h, p, f, o: viol.append((h, p)))
        found[wid] = (r, viol)
    rb, vb = found['toy-bug']
    ro, vo = found['toy-ok']
    assert vb and min(len(h) for h, _ in vb) == 2, vb[:2]      # shortest counterexample: ['ab', 'ba'] or ['ba', 'ab']
    assert not vo
    assert ro['states'] == 8 and ro['capped'] is None, ro       # 2^3 cache states of the repaired toy, fixpoint reached
    assert rb['states'] == 6, rb                                # {} / ab-or-ba generated first / +c


TESTS = [t_scheduler, t_bfs]
