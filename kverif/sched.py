"""Deterministic thread scheduler + iterative preemption bounding (stateless model checking of real threads).

Bodies run in real threading.Thread objects.  sys.settrace installs, for frames whose file matches `match`,
a local trace function that calls point() on every 'line' event.  A thread runs only while it holds the baton
(one Semaphore per thread), so exactly one thread is runnable at any time and the interleaving is decided by
the schedule: a list of choice indices, one per scheduling point at which more than one thread is enabled.
Choice 0 = keep running the current thread (canonical order: running thread first if still enabled, then
ascending ids).  Replaying a prefix must reproduce the same scheduling points (checked by the explorer).
"""
import os
import sys
import threading


class Divergence(RuntimeError):
    pass


class Hang(RuntimeError):
    pass


class Run:
    def __init__(self, bodies, prefix, match, watchdog=120.0):
        self.bodies = bodies
        self.prefix = list(prefix)
        self.match = match
        self.n = len(bodies)
        self.sems = [threading.Semaphore(0) for _ in bodies]
        self.done = [False] * self.n
        self.choices = []
        self.points = []          # (enabled order tuple, running_enabled, location)
        self.results = [None] * self.n
        self.errors = [None] * self.n
        self.main = threading.Semaphore(0)
        self.watchdog = watchdog
        self.failure = None

    def _pick(self, me, loc):
        enabled = [i for i in range(self.n) if not self.done[i]]
        if not enabled:
            return None
        order = ([me] if (me is not None and me in enabled) else []) + [i for i in enabled if i != me]
        if len(order) == 1:
            return order[0]
        idx = len(self.choices)
        c = self.prefix[idx] if idx < len(self.prefix) else 0
        if c >= len(order):
            raise Divergence(f'choice {c} out of range at point {idx} {loc} (enabled {order})')
        self.choices.append(c)
        self.points.append((tuple(order), me is not None and me in enabled, loc))
        return order[c]

    def point(self, me, loc):
        nxt = self._pick(me, loc)
        if nxt != me:
            self.sems[nxt].release()
            self.sems[me].acquire()

    def _runner(self, i):
        self.sems[i].acquire()
        match = self.match

        def tr(frame, ev, arg):
            if not match(frame.f_code.co_filename):
                return None

            def local(frame, ev, arg):
                if ev == 'line':
                    self.point(i, (os.path.basename(frame.f_code.co_filename), frame.f_lineno))
                return local
            return local
        sys.settrace(tr)
        try:
            self.results[i] = self.bodies[i]()
        except Divergence as e:
            self.failure = e
            self.errors[i] = e
        except BaseException as e:
            self.errors[i] = e
        finally:
            sys.settrace(None)
            self.done[i] = True
            try:
                nxt = self._pick(None, ('exit', i))
            except Divergence as e:
                self.failure = e
                nxt = next((j for j in range(self.n) if not self.done[j]), None)
            if nxt is None:
                self.main.release()
            else:
                self.sems[nxt].release()

    def run(self):
        ths = [threading.Thread(target=self._runner, args=(i,), daemon=True) for i in range(self.n)]
        for t in ths:
            t.start()
        first = self._pick(None, ('start',))
        self.sems[first].release()
        if not self.main.acquire(timeout=self.watchdog):
            raise Hang(f'no completion within {self.watchdog}s (choices so far {self.choices[:50]})')
        for t in ths:
            t.join()
        if self.failure:
            raise self.failure
        return self


def preemptions(points, choices, upto):
    c = 0
    for (order, running_enabled, loc), ch in zip(points[:upto], choices[:upto]):
        if running_enabled and ch != 0:
            c += 1
    return c


def alternatives(run, start, bound):
    """Child prefixes of an execution: deviate at one point i >= start within the preemption bound."""
    out = []
    for i in range(start, len(run.points)):
        order, running_enabled, loc = run.points[i]
        cost = preemptions(run.points, run.choices, i) + (1 if running_enabled else 0)
        if cost > bound:
            continue
        for alt in range(1, len(order)):
            out.append(run.choices[:i] + [alt])
    return out


def explore_subtree(make_bodies, observe, prefix, bound, match, expect_locs=None, point_filter=None, limit=None):
    """DFS below `prefix` (inclusive).  observe(run) -> hashable observation.  Returns stats dict.
    expect_locs: locations of the parent's points[:len(prefix)-1]; replaying must reproduce them."""
    stats = {'schedules': 0, 'max_points': 0, 'outcomes': {}, 'divergences': 0, 'first': {}}
    stack = [(list(prefix), expect_locs)]
    while stack:
        pre, exp = stack.pop()
        r = Run(make_bodies(), pre, match).run()
        stats['schedules'] += 1
        stats['max_points'] = max(stats['max_points'], len(r.points))
        if exp is not None:
            got = [p[2] for p in r.points[:len(exp)]]
            if got != exp:
                stats['divergences'] += 1
        o = observe(r)
        stats['outcomes'][o] = stats['outcomes'].get(o, 0) + 1
        stats['first'].setdefault(o, list(r.choices))
        for child in alternatives(r, len(pre), bound):
            i = len(child) - 1
            if point_filter is not None and not point_filter(r.points[i][2]):
                continue
            stack.append((child, [p[2] for p in r.points[:i]]))
        if limit and stats['schedules'] >= limit:
            stats['limit_hit'] = True
            break
    return stats
