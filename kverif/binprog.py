"""Enumeration of 'programs' for binary operators: a program is an ordered pair of key tuples;
each pair makes kingdon generate and compile a different function."""
from . import spaces
from .oracle import make_algebra


def canon(alg):
    return tuple(alg.canon2bin.values())


def expand(spec, alg):
    """spec -> list of key tuples (kingdon binary keys), simplest first."""
    kind = spec[0]
    c = canon(alg)
    n = len(c)
    if kind == 'T':        # all ordered tuples without repetition, size <= spec[1]
        return [tuple(c[i] for i in t) for t in spaces.T(n, spec[1])]
    if kind == 'S':        # canonical subsets, size <= spec[1]
        return spaces.S(c, spec[1])
    if kind == 'G':        # grade blocks
        return spaces.G(c, alg.d)
    if kind == 'B':        # single blades and the empty tuple
        return [()] + [(k,) for k in c]
    if kind == 'B12':      # the first six and the last six single blades (large algebras)
        return [(k,) for k in list(c[1:7]) + list(c[-6:])]
    if kind == 'full':     # dense in canonical, binary and reversed order
        return [tuple(c), tuple(sorted(c)), tuple(reversed(c))]
    if kind == 'list':
        return [tuple(t) for t in spec[1]]
    if kind == 'sparse3':  # structured sparse family for large d: every 3-subset of a fixed 7-blade menu
        menu = [c[0], c[1], c[2], c[alg.d], c[alg.d + 1], c[n // 2], c[-1]]
        menu = list(dict.fromkeys(menu))
        from itertools import combinations
        return [t for k in range(1, 4) for t in combinations(menu, k)]
    if kind == 'Gsmall':   # grade blocks of grades {0},{1},{2},{0,2},{1,2}, {d}, {d-1}
        d = alg.d
        sel = [(0,), (1,), (2,), (0, 2), (1, 2), (d,), (d - 1,), (0, 1, 2)]
        out = []
        for gs in sel:
            t = tuple(k for k in c if spaces.grade_of(k) in gs)
            if t not in out:
                out.append(t)
        return out
    raise ValueError(spec)


def pairs(shard, alg):
    left = expand(tuple(shard['left']), alg)
    right = expand(tuple(shard['right']), alg)
    i, n = shard.get('chunk', (0, 1))
    left = spaces.chunks(left, n)[i] if i < len(spaces.chunks(left, n)) else []
    diag = shard.get('diag', False)
    for a in left:
        if diag:
            yield a, a
            continue
        for b in right:
            yield a, b


def mk(stratum, cfg, left, right, nchunks=1, **kw):
    return [dict(stratum=stratum, cfg=cfg, left=list(left), right=list(right), chunk=(i, nchunks), **kw)
            for i in range(nchunks)]


def product_shards(tier):
    """Program space shared by C02 and C03 (per-property scaling is applied by the caller)."""
    sh = []
    # d <= 2: complete over T(d) x T(d), every signature ordering
    for d in (0, 1, 2):
        for s in spaces.sig(d):
            sh += mk('d<=2 all ordered tuples x all ordered tuples, all signature orderings',
                     spaces.cfg_sig(s), ('T', None), ('T', None), 4 if d == 2 else 1)
    return sh
