"""Runner: shards a property's case space over worker processes, merges results,
matches violations against known_findings.json, writes evidence and replay files.

Exit codes: 0 property held on everything explored (known findings are printed),
            1 at least one violation not listed as an open known finding,
            2 framework error (never a verdict about the property).
"""
import concurrent.futures as cf
import importlib
import json
import multiprocessing as mp
import os
import subprocess
import sys
import time
import traceback

ROOT = os.path.dirname(os.path.dirname(os.path.abspath(__file__)))
EVID = os.path.join(ROOT, 'evidence')
REPLAYS = os.path.join(ROOT, 'replays')
KNOWN = os.path.join(ROOT, 'known_findings.json')
PY = sys.executable

MAX_REPORT = 8          # distinct unknown violation keys written as replay files
BUDGET = {'quick': float(os.environ.get('VERIF_QUICK_BUDGET', 150)),
          'thorough': float(os.environ.get('VERIF_THOROUGH_BUDGET', 1500))}


def jobs():
    return int(os.environ.get('VERIF_JOBS', os.cpu_count() or 4))


# ----------------------------------------------------------------------------- workers
def _init_worker():
    import faulthandler, signal
    faulthandler.register(signal.SIGUSR1, all_threads=True)
    try:
        import ctypes
        ctypes.CDLL('libc.so.6').prctl(1, signal.SIGKILL)   # PR_SET_PDEATHSIG: never outlive the runner
    except Exception:
        pass
    from . import bootstrap
    bootstrap.install()


_PROCESS_LOG = []      # (funcname, arg) of everything this worker process executed so far, in order


def _call(modname, funcname, arg):
    """Executed in a worker process.  Violations carry the (bounded) history of what this process ran before, because
    module-level state in kingdon (e.g. a cache shared by all algebras) makes behaviour depend on it; a replay that
    does not reproduce from a fresh process is retried after replaying that history."""
    try:
        mod = importlib.import_module(modname)
        t0 = time.time()
        res = getattr(mod, funcname)(arg)
        if isinstance(res, dict):
            res['_elapsed'] = time.time() - t0
        if isinstance(res, dict) and res.get('violations'):
            prior = _PROCESS_LOG[-8:]
            try:
                blob = json.dumps(jsonable([[f, a] for f, a in prior] + [[funcname, arg]]))
            except Exception:
                blob = None
            if blob is not None and len(blob) < 400000:
                for v in res['violations']:
                    if isinstance(v.get('case'), dict):
                        v['case'] = dict(v['case'], _process_history=json.loads(blob))
        _PROCESS_LOG.append((funcname, arg))
        return ('ok', res)
    except BaseException as e:
        if type(e).__name__ == 'ConstructionFailed':
            return ('ok', construction_violation(e))
        return ('err', traceback.format_exc())


def _call_seq(modname, funcname, args):
    """Several work items one after the other in ONE process (cross-configuration history)."""
    tot = new_result()
    for a in args:
        st, res = _call(modname, funcname, a)
        if st == 'err':
            return (st, res)
        merge(tot, res)
    tot['outcomes'] = sorted(tot['outcomes'])
    return ('ok', tot)


class Ctx:
    """What a property driver sees."""

    def __init__(self, pid, mod, tier, seed, pool, t0):
        self.pid, self.mod, self.tier, self.seed = pid, mod, tier, seed
        self.pool = pool
        self.t0 = t0
        self.budget = BUDGET[tier]
        self.agg = new_result()
        self.strata = {}
        self.capped = []

    def time_left(self):
        return self.budget - (time.time() - self.t0)

    def map(self, funcname, items, stratum=None, ordered=False):
        """Run getattr(module, funcname)(item) for every item on the pool; returns list of results.
        Framework errors in a worker abort the whole run (exit 2)."""
        futs = [self.pool.submit(_call, self.mod.__name__, funcname, it) for it in items]
        out = [None] * len(futs)
        idx = {f: i for i, f in enumerate(futs)}
        for f in cf.as_completed(futs):
            st, res = f.result()
            if st == 'err':
                for g in futs:
                    g.cancel()
                raise FrameworkError(res)
            out[idx[f]] = res
        return out

    def run_shards(self, shards, funcname='run_shard'):
        """Default driver: shards carry a 'stratum' name; strata are completed in order.  If the time
        budget is exhausted, remaining shards of unfinished strata are cancelled and reported."""
        by = {}
        order = []
        for sh in shards:
            s = sh.get('stratum', 'all')
            if s not in by:
                by[s] = []
                order.append(s)
            by[s].append(sh)
        futs = {}
        fut_shard = {}
        timed = []
        idx_of = {}
        for s in order:
            # VERIF_SEED rotates the submission order inside a stratum: the same cases are explored, but which worker process
            # sees which configurations one after the other (module-level state of the library) changes with the seed
            k = self.seed % len(by[s]) if by[s] else 0
            by[s] = by[s][k:] + by[s][:k]
            for sh in by[s]:
                f = self.pool.submit(_call, self.mod.__name__, funcname, sh)
                futs[f] = s
                fut_shard[f] = sh
                idx_of[id(sh)] = len(idx_of)
        done_count = {s: 0 for s in order}
        pending = set(futs)
        cancelled = False
        while pending:
            done, pending = cf.wait(pending, timeout=1.0, return_when=cf.FIRST_COMPLETED)
            for f in done:
                if f.cancelled():
                    continue
                st, res = f.result()
                if st == 'err':
                    for g in pending:
                        g.cancel()
                    raise FrameworkError(res)
                s = futs[f]
                done_count[s] += 1
                timed.append((res.get('_elapsed', 1e9), fut_shard[f]))
                merge(self.agg, res)
                sr = self.strata.setdefault(s, {'shards': 0, 'evaluations': 0})
                sr['shards'] += 1
                sr['evaluations'] += res.get('evals', 0)
            if not cancelled and self.time_left() < 0:
                cancelled = True
                for g in list(pending):
                    if g.cancel():
                        pending.discard(g)
        # cross-configuration sequence pass: module-level state of the library (anything shared by all Algebra objects) makes
        # behaviour depend on what the process did before; the cheapest work items are run again one after the other in a
        # single process, in two orders (deterministic, unlike the assignment of work items to pool workers above)
        seq_budget = float(os.environ.get('VERIF_SEQ_BUDGET', 12 if self.tier == 'quick' else 60))
        if not cancelled and seq_budget > 0 and len(timed) > 1:
            timed.sort(key=lambda t: t[0])
            pick, tot = [], 0.0
            for el, sh in timed:
                if 'seq' in sh:
                    continue
                if tot + el > seq_budget:
                    break
                pick.append(sh)
                tot += el
            if len(pick) > 1:
                # keep the original (simplest first) order of the selected items
                pick.sort(key=lambda sh: idx_of[id(sh)])
                f1 = self.pool.submit(_call_seq, self.mod.__name__, funcname, pick)
                f2 = self.pool.submit(_call_seq, self.mod.__name__, funcname, list(reversed(pick)))
                name = 'cross-configuration sequence pass (cheapest work items again, one process, two orders)'
                for f in (f1, f2):
                    st, res = f.result()
                    if st == 'err':
                        raise FrameworkError(res)
                    ev = res.get('evals', 0)
                    # only violations are new information; the cases themselves were already counted above
                    res['evals'] = 0
                    res['nontrivial'] = 0
                    res['skipped'] = 0
                    res['samples'] = []
                    # a cause already reported by the ordinary pass is not new; anything else only shows in sequence
                    have = {v['key'] for v in self.agg['violations']}
                    keep = []
                    for v in res['violations']:
                        if v['key'] in have:
                            continue
                        v['key'] = v['key'] + ':in-sequence'
                        keep.append(v)
                    res['violations'] = keep
                    merge(self.agg, res)
                    sr = self.strata.setdefault(name, {'shards': 0, 'evaluations': 0})
                    sr['shards'] += len(pick)
                    sr['evaluations'] += ev
                    sr['complete'] = True
        for s in order:
            sr = self.strata.setdefault(s, {'shards': 0, 'evaluations': 0})
            sr['planned_shards'] = len(by[s])
            sr['complete'] = done_count[s] == len(by[s])
            if not sr['complete']:
                self.capped.append(s)


class FrameworkError(Exception):
    pass


def new_result():
    return {'evals': 0, 'nontrivial': 0, 'violations': [], 'samples': [], 'skipped': 0, 'extra': {},
            'states': 0, 'transitions': 0, 'traces': 0, 'outcomes': set()}


def merge(agg, res):
    agg['evals'] += res.get('evals', 0)
    agg['nontrivial'] += res.get('nontrivial', 0)
    agg['skipped'] += res.get('skipped', 0)
    agg['states'] += res.get('states', 0)
    agg['transitions'] += res.get('transitions', 0)
    agg['traces'] += res.get('traces', 0)
    for k, v in res.get('extra', {}).items():
        if isinstance(v, (int, float)):
            agg['extra'][k] = agg['extra'].get(k, 0) + v
        else:
            agg['extra'][k] = v
    for s in res.get('samples', []):
        if len(agg['samples']) < 6:
            agg['samples'].append(s)
    agg['violations'].extend(res.get('violations', []))
    agg['outcomes'] |= set(res.get('outcomes', ()))


# ----------------------------------------------------------------------------- violations
def violation(key, what, case, expected=None, observed=None, repro_py=None):
    """Build a violation record.  key = cause signature (structural description of the smallest
    failing case); case must be JSON-able and sufficient for module.replay / run_shard."""
    return {'key': key, 'what': what, 'case': case, 'expected': _s(expected), 'observed': _s(observed),
            'repro_py': repro_py}


def _s(x):
    if x is None:
        return None
    s = x if isinstance(x, str) else repr(x)
    return s if len(s) < 2000 else s[:2000] + '...'


def construction_violation(e):
    opts = {k: (v if isinstance(v, (int, float, str, bool)) or v is None else repr(v)) for k, v in e.options.items()}
    basis = 'custom-basis' if e.cfg.get('basis') else 'default-basis'
    v = violation(f'construct:{type(e.err).__name__}:{basis}', f'the admissible configuration {e.cfg} {opts or ""} cannot be constructed: {type(e.err).__name__}: {e.err}',
                  {'construct': e.cfg, 'options': opts}, 'an Algebra', repr(e.err))
    return {'evals': 1, 'nontrivial': 0, 'violations': [v], 'samples': [], 'skipped': 0, 'extra': {}}


def load_known(pid):
    if not os.path.exists(KNOWN):
        return {}
    with open(KNOWN) as f:
        data = json.load(f)
    return {e['key']: e for e in data.get('findings', []) if e.get('property') == pid}


def _detuple(x):
    return x


def jsonable(x):
    if isinstance(x, dict):
        return {str(k): jsonable(v) for k, v in x.items()}
    if isinstance(x, (list, tuple, set, frozenset)):
        return [jsonable(v) for v in x]
    if isinstance(x, (int, float, str, bool)) or x is None:
        return x
    return repr(x)


# ----------------------------------------------------------------------------- main
def run_property(pid, tier, replay=None):
    t0 = time.time()
    seed = int(os.environ.get('VERIF_SEED', '0') or 0)
    os.environ['PYTHONHASHSEED'] = str(seed % 4294967295)
    os.environ.setdefault('KINGDON_VERIF', '1')
    from . import bootstrap
    bootstrap.install()
    mod = importlib.import_module(f'kverif.props.{pid}')

    if replay:
        return do_replay(pid, mod, replay)

    os.makedirs(EVID, exist_ok=True)
    ctx_mp = mp.get_context('spawn')
    kw = {}
    if getattr(mod, 'MAX_TASKS_PER_CHILD', None):
        kw['max_tasks_per_child'] = mod.MAX_TASKS_PER_CHILD
    pool = cf.ProcessPoolExecutor(max_workers=jobs(), mp_context=ctx_mp, initializer=_init_worker, **kw)
    ctx = Ctx(pid, mod, tier, seed, pool, t0)
    try:
        if hasattr(mod, 'drive'):
            mod.drive(ctx)
        else:
            ctx.run_shards(mod.shards(tier, seed))
    except FrameworkError as e:
        pool.shutdown(wait=False, cancel_futures=True)
        print(f'FRAMEWORK ERROR in {pid}:\n{e}', file=sys.stderr)
        return 2
    except Exception:
        pool.shutdown(wait=False, cancel_futures=True)
        print(f'FRAMEWORK ERROR in {pid} (driver):\n{traceback.format_exc()}', file=sys.stderr)
        return 2
    finally:
        pool.shutdown(wait=False, cancel_futures=True)

    agg = ctx.agg
    known = load_known(pid)
    seen_known, unknown = {}, {}
    for v in agg['violations']:
        k = v['key']
        if k in known and known[k].get('status') == 'open':
            seen_known.setdefault(k, v)
        else:
            unknown.setdefault(k, v)

    for k, v in sorted(seen_known.items()):
        print(f"KNOWN-FINDING: property={pid} {known[k].get('what', v['what'])} [{k}]")

    rc = 0
    replay_paths = []
    if unknown:
        os.makedirs(REPLAYS, exist_ok=True)
        for i, (k, v) in enumerate(sorted(unknown.items(), key=lambda kv: len(json.dumps(jsonable(kv[1]['case']))))):
            if i >= MAX_REPORT:
                break
            path = os.path.join(REPLAYS, f'{pid}_{tier}_{i}.json')
            with open(path, 'w') as f:
                json.dump(jsonable({'property': pid, **v}), f, indent=1)
            replay_paths.append((k, v, path))
        # confirm every reported violation twice from a fresh process; divergence is a framework error
        for k, v, path in replay_paths:
            outs = []
            for _ in range(2):
                p = subprocess.run([PY, '-m', 'kverif.run', pid, '--replay', path], cwd=ROOT,
                                   capture_output=True, text=True, timeout=900)
                # verdict lines only: observed values may contain object addresses
                outs.append((p.returncode, [l for l in p.stdout.splitlines() if l.startswith('REPLAY reproduced=')]))
            if outs[0] != outs[1]:
                print(f'FRAMEWORK ERROR: replay of {path} is not deterministic: {outs}', file=sys.stderr)
                return 2
            if outs[0][0] != 1:
                print(f'FRAMEWORK ERROR: violation {k} did not reproduce from a fresh process ({outs[0]}); '
                      f'see {path}', file=sys.stderr)
                return 2
            print(f"  violation: {v['what']}\n    expected: {v['expected']}\n    observed: {v['observed']}")
            print(f'VIOLATION property={pid} replay={path}')
            rc = 1

    wall = time.time() - t0
    level = getattr(mod, 'LEVEL', 'exploration')
    exhaustive = not ctx.capped
    cov = {
        'evaluations': agg['evals'],
        'distinct_nontrivial': agg['nontrivial'],
        'rule': getattr(mod, 'RULE', ''),
        'samples': jsonable(agg['samples']),
        'exhaustive': exhaustive,
        'skipped_undefined': agg['skipped'],
        'strata': ctx.strata,
        'caps_hit': ctx.capped,
        'bounds': jsonable(getattr(mod, 'BOUNDS', {}).get(tier, '')) + ' [summary; every stratum actually run, with its shard and evaluation counts, is listed under coverage.strata]',
        'known_findings_seen': sorted(seen_known),
        'violations_unlisted': sorted(unknown),
        'workers': jobs(),
    }
    cov.update(jsonable(agg['extra']))
    if level == 'model_checking':
        cov['states'] = agg['states']
        cov['transitions'] = agg['transitions']
        cov['traces_validated_against_impl'] = agg['traces']
        cov['distinct_outcomes'] = len(agg['outcomes'])
    ev = {
        'property_id': pid, 'tier': tier, 'seed': seed, 'level': level, 'coverage': cov,
        'assumptions': list(getattr(mod, 'ASSUMPTIONS', [])), 'wall_s': round(wall, 2),
        'violations': len(unknown),
    }
    with open(os.path.join(EVID, f'{pid}.json'), 'w') as f:
        json.dump(ev, f, indent=1)
    print(f"{pid} {tier}: evaluations={agg['evals']} distinct_nontrivial={agg['nontrivial']} "
          f"skipped={agg['skipped']} states={agg['states']} transitions={agg['transitions']} "
          f"known={len(seen_known)} unlisted={len(unknown)} exhaustive={exhaustive} "
          f"caps={ctx.capped} wall={wall:.1f}s")
    if agg['evals'] == 0:
        print('FRAMEWORK ERROR: nothing was explored', file=sys.stderr)
        return 2
    return rc


def do_replay(pid, mod, path):
    with open(path) as f:
        rec = json.load(f)
    case = rec['case']
    hist = case.pop('_process_history', None) if isinstance(case, dict) else None
    if isinstance(case, dict) and 'construct' in case:
        from .oracle import make_algebra, ConstructionFailed
        try:
            make_algebra(case['construct'])      # options with non-JSON values (wrappers, classes) are not needed to reproduce
            res = {'violations': []}
        except ConstructionFailed as e:
            res = construction_violation(e)
    elif os.environ.get('VERIF_REPLAY_MODE') == 'history' and hist:
        # pristine process: replay what the worker process had executed before, then the failing work item
        res = {'violations': []}
        for fname, arg in hist:
            out = getattr(mod, fname)(arg)
            if isinstance(out, dict):
                res = out
    elif hasattr(mod, 'replay'):
        res = mod.replay(case)
    else:
        res = mod.run_shard(case['shard'])
    keys = sorted({v['key'] for v in res.get('violations', [])})
    hit = rec['key'] in keys
    if not hit and hist and os.environ.get('VERIF_REPLAY_MODE') != 'history':
        # not reproducible on its own: module-level state of kingdon may depend on what the process ran before
        print(f'REPLAY not reproduced on its own; replaying the process history ({len(hist) - 1} earlier work items) in a pristine process')
        p = subprocess.run([PY, '-m', 'kverif.run', pid, '--replay', path], cwd=ROOT, env=dict(os.environ, VERIF_REPLAY_MODE='history'),
                           capture_output=True, text=True, timeout=3600)
        sys.stdout.write(p.stdout)
        return p.returncode
    for v in res.get('violations', []):
        if v['key'] == rec['key']:
            print(f"REPLAY violation key={v['key']} what={v['what']} expected={v['expected']} observed={v['observed']}")
            break
    print(f"REPLAY reproduced={hit} keys={keys}")
    if hit:
        print(f'VIOLATION property={pid} replay={path}')
        return 1
    return 0
