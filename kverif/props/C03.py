"""C03  op, ip, lc, rc, sp, cp, acp match their definitions (same program enumeration as C02, x 7 operators)."""
from fractions import Fraction

from .. import spaces, binprog
from ..common import Result, gmv, mvdict, eq_elem, show, cfg_name, cfg_repro
from ..harness import violation
from ..oracle import make_algebra, ref_from_config
from ..ring import P, Trap, iszero, same

PID = 'C03'
LEVEL = 'exploration'
OPS = ('op', 'ip', 'lc', 'rc', 'sp', 'cp', 'acp')
RULE = ('cases = (configuration, operator in op/ip/lc/rc/sp/cp/acp, ordered key tuple pair) run on the generic point; '
        'enumerated completely per stratum. distinct = distinct (configuration, operator, key tuple pair); non-trivial = '
        'reference result has a non-zero coefficient. The two derived identities ip+sp=lc+rc and cp+acp=gp are checked on '
        "kingdon's own results for every pair.")
ASSUMPTIONS = ['grades are popcounts of the oracle word of the named blade, not of kingdon\'s binary key',
               'the sign of each blade pair comes from the blade table checked by C01']
BOUNDS = {
    'quick': 'sig(d) d<=1: T x T complete; sig(2): ordered tuples of <=3 blades; d=3: 3 pqr configurations x canonical subsets of <=2 blades; '
             '2DPGA custom basis x single blades and pairs',
    'thorough': 'sig(2): T(2) x T(2) complete; sig(3): canonical subsets <=2 blades, 4 pqr: subsets <=3 blades, grade blocks; '
                'custom bases with <=1 deviation d<=3 (subsets <=2 blades); d=4 pqr grade blocks; d=5 small grade blocks; d=7 sparse',
}


def shards(tier, seed):
    mk = binprog.mk
    sh = []
    for d in (0, 1):
        for s in spaces.sig(d):
            sh += mk('d<=1 complete T x T', spaces.cfg_sig(s), ('T', None), ('T', None))
    # large operands (>= 1024 blade pairs): dense x dense in d=5 (three storage orders each), even x even in d=6
    sh += mk('large operands: dense x dense d=5 (canonical / binary / reversed order), even x even d=6', spaces.cfg_pqr(4, 0, 1), ('full',), ('full',), 3)
    ev6 = [k for k in range(64) if bin(k).count('1') % 2 == 0]
    sh += mk('large operands: dense x dense d=5 (canonical / binary / reversed order), even x even d=6', spaces.cfg_pqr(5, 1, 0), ('list', [ev6]), ('list', [ev6, list(reversed(ev6))]), 1)
    if tier == 'quick':
        for s in spaces.sig(2):
            sh += mk('d=2 all orderings: ordered tuples of <=3 blades', spaces.cfg_sig(s), ('T', 3), ('T', 3), 6)
        for t in [(3, 0, 0), (2, 0, 1), (1, 1, 1)]:
            sh += mk('d=3: canonical subsets of <=2 blades (3 pqr configurations)', spaces.cfg_pqr(*t), ('S', 2), ('S', 2), 6)
        sh += mk('custom basis 2DPGA: subsets of <=2 blades', spaces.NAMED['2DPGA'], ('S', 2), ('S', 2), 4)
        sh += mk('d=7 (lazy blade table): 12 single blades x same', spaces.cfg_pqr(5, 1, 1), ('B12',), ('B12',), 2)
    else:
        for s in spaces.sig(2):
            sh += mk('d=2 all orderings: T(2) x T(2) complete', spaces.cfg_sig(s), ('T', None), ('T', None), 12)
        for s in spaces.sig(3):
            sh += mk('d=3 all 27 orderings: canonical subsets of <=2 blades', spaces.cfg_sig(s), ('S', 2), ('S', 2), 4)
        for t in [(3, 0, 0), (2, 0, 1), (1, 1, 1), (0, 3, 0)]:
            sh += mk('d=3: subsets of <=3 blades and grade blocks (4 pqr)', spaces.cfg_pqr(*t), ('S', 3), ('S', 3), 16)
            sh += mk('d=3: subsets of <=3 blades and grade blocks (4 pqr)', spaces.cfg_pqr(*t), ('G',), ('G',), 4)
        for d in (2, 3):
            for b in spaces.bases_by_deviation(d, 1)[1:]:
                for s in spaces.sig(d)[::4]:
                    sh += mk('custom bases with one deviation, d<=3: subsets of <=2 blades', spaces.cfg_sig(s, basis=b), ('S', 2), ('S', 2), 1)
        for n in ('2DPGA', '3DPGA'):
            sh += mk('named custom bases: subsets of <=2 blades', spaces.NAMED[n], ('S', 2), ('S', 2), 8)
        for t in spaces.pqr(4)[::3]:
            sh += mk('d=4: grade blocks', spaces.cfg_pqr(*t), ('G',), ('G',), 8)
        for t in [(5, 0, 0), (3, 1, 1)]:
            sh += mk('d=5: small grade blocks', spaces.cfg_pqr(*t), ('Gsmall',), ('Gsmall',), 4)
        sh += mk('d=7 lazy: sparse tuples', spaces.cfg_pqr(6, 0, 1), ('sparse3',), ('sparse3',), 4)
    # cross-algebra histories: all signature orderings of one dimension in ONE process, forward and backward
    for d in (1, 2):
        for order in (spaces.sig(d), list(reversed(spaces.sig(d)))):
            sh.append(dict(stratum='all signature orderings of d<=2 one after the other in one process (two orders), subsets <=2 blades',
                           seq=[binprog.mk('seq', spaces.cfg_sig(s), ('S', 2), ('S', 2), 1)[0] for s in order]))
    return sh


def grade_rule(op):
    return {'op': lambda r, s: r + s, 'ip': lambda r, s: abs(r - s), 'lc': lambda r, s: s - r,
            'rc': lambda r, s: r - s, 'sp': lambda r, s: 0}[op]


def gp_expected(alg, ka, va, kb, vb, keep=None):
    exp = {}
    for i, x in zip(ka, va):
        for j, y in zip(kb, vb):
            s = alg.signs[i, j]
            if s and (keep is None or keep(i, j, i ^ j)):
                t = x * y if s > 0 else -(x * y)
                K = i ^ j
                exp[K] = exp[K] + t if K in exp else t
    return exp


def addd(x, y, sign=1):
    r = dict(x)
    for k, v in y.items():
        v = v if sign > 0 else -v
        r[k] = r[k] + v if k in r else v
    return r


def run_shard(shard):
    if 'seq' in shard:
        from ..common import run_sequence
        return run_sequence(run_shard, shard)
    res = Result()
    cfg = shard['cfg']
    alg = make_algebra(cfg)
    ref = ref_from_config(cfg)
    gr = {k: len(ref.name_to_blade(alg.bin2canon[k])[1]) for k in alg.bin2canon}
    name = cfg_name(cfg)
    half = Fraction(1, 2)
    for ka, kb in binprog.pairs(shard, alg):
        a, b = gmv(alg, ka, 'a'), gmv(alg, kb, 'b')
        va, vb = a.values(), b.values()
        case = {'shard': dict(stratum=shard['stratum'], cfg=cfg, left=['list', [list(ka)]], right=['list', [list(kb)]], chunk=(0, 1))}
        got = {}
        # the implementation runs first: the oracle reads alg.signs, which would fill a lazily built table (d > 6) for it
        raw = {}
        for op in OPS:
            try:
                raw[op] = ('ok', mvdict(getattr(a, op)(b)))
            except Trap as e:
                raw[op] = ('trap', e)
            except Exception as e:
                raw[op] = ('exc', e)
        ab = gp_expected(alg, ka, va, kb, vb)
        ba = gp_expected(alg, kb, vb, ka, va)
        for op in OPS:
            res.evals += 1
            if op in ('cp', 'acp'):
                e = addd(ab, ba, -1 if op == 'cp' else 1)
                exp = {k: v * half for k, v in e.items()}
            else:
                rule = grade_rule(op)
                exp = gp_expected(alg, ka, va, kb, vb, lambda i, j, K: gr[K] == rule(gr[i], gr[j]))
            nz = {k for k, v in exp.items() if not iszero(v)}
            if nz:
                res.nontrivial += 1
            repro = (f"from kingdon import Algebra\nalg = {cfg_repro(cfg)}\na = alg.multivector(keys={tuple(ka)}, name='a'); "
                     f"b = alg.multivector(keys={tuple(kb)}, name='b')\nprint(a.{op}(b))")
            key = f'{op}:{len(ka)}x{len(kb)}'
            st, val = raw[op]
            if st == 'trap':
                res.violate(violation(key + ':trap', f'{op} {name} {ka} x {kb}: {val}', case, 'value independent control flow', str(val), repro))
                continue
            if st == 'exc':
                res.violate(violation(key + ':raises', f'{op} {name} {ka} x {kb} raises {type(val).__name__}: {val}', case, show(exp), repr(val), repro))
                continue
            g, dup = val
            got[op] = g
            bad = eq_elem(g, exp)
            missing = sorted(nz - set(g))
            if bad or dup or missing:
                res.violate(violation(key, f'{op} {name} keys {ka} x {kb}: wrong coefficient on blades {bad or missing}', case, show(exp), show(g), repro))
            elif len(res.samples) < 2 and len(ka) >= 2 and len(kb) >= 2 and nz and op in ('lc', 'cp'):
                res.sample({'config': name, 'op': op, 'keys_a': list(ka), 'keys_b': list(kb), 'reference': show(exp)})
        if len(got) == len(OPS):
            # derived identities on kingdon's own results (literal statement)
            res.evals += 2
            try:
                gpk, _ = mvdict(a * b)
            except Exception as e:
                res.violate(violation('gp:raises', f'gp {name} {ka} x {kb} raises {type(e).__name__}', case, '', repr(e)))
                continue
            if eq_elem(addd(got['ip'], got['sp']), addd(got['lc'], got['rc'])):
                res.violate(violation('identity:ip+sp=lc+rc', f'{name} keys {ka} x {kb}', case, show(addd(got['lc'], got['rc'])), show(addd(got['ip'], got['sp']))))
            if eq_elem(addd(got['cp'], got['acp']), gpk):
                res.violate(violation('identity:cp+acp=gp', f'{name} keys {ka} x {kb}', case, show(gpk), show(addd(got['cp'], got['acp']))))
    return res.asdict()
