"""C10  Code is generated at most once per operator and key pattern.

Observation points are outside the repository: a counting builtins.compile attributed to frames in kingdon/, and
counting wrappers on operator_dict.do_codegen / do_compile (labelled with (codegen name, key tuples)).
Explicit-state search over call histories of one live Algebra: state = set of cached (operator, keys_in) labels.
"""
import builtins
import os
import sys
from fractions import Fraction
from itertools import product

from ..common import Result
from ..harness import violation, merge
from ..spaces import chunks

PID = 'C10'
LEVEL = 'model_checking'
RULE = ('state = set of (operator, keys_in) entries cached in the live Algebra; transition = one public call (operator x key pattern x '
        'coefficient type); histories of the shapes [c], [c,c\'], [c,o,c\'] (c\' = same operator and key patterns as c, any type; o = any '
        'other call) are executed on a fresh Algebra each; invariants on every transition: a call whose labels were all cached triggers '
        'zero compile()/do_codegen/do_compile events, every label is generated at most once per history, caches never shrink.')
ASSUMPTIONS = ['every code generation path of kingdon ends in builtins.compile called from a frame in kingdon/ and goes through '
               'operator_dict.do_codegen or do_compile (true for the pinned tree; a new path would show up as un-attributed compile events)']
BOUNDS = {'quick': 'Algebra(3): 37 call forms x 2 key patterns x 8 coefficient types; [c,c\'] complete; [c,o,c\'] with c over 2 types, o over 37 forms, c\' over 2 types; long histories of 700 distinct patterns (gp, neg) on Algebra(4)',
          'thorough': '[c,c\'] complete on Algebra(3) and Algebra(2,0,1); [c,o,c\'] with c over 4 types, o over all forms x 2 patterns, c\' over 8 types; '
                      'histories of length 4 [c,o1,o2,c\'] on a 12-form sub-alphabet'}

F = Fraction
UNARY = ['inv', 'neg', 'reverse', 'involute', 'conjugate', 'sqrt', 'polarity', 'unpolarity', 'hodge', 'unhodge', 'normsq',
         'outerexp', 'outersin', 'outercos', 'outertan']
BINARY = ['gp', 'sw', 'cp', 'acp', 'ip', 'sp', 'lc', 'rc', 'op', 'rp', 'proj', 'add', 'sub', 'div']
EXTRA = ['pow3', 'norm', 'normalized', 'dual', 'exp', 'regnum', 'regsym', 'pow-2', 'regnum2']
FORMS = BINARY + UNARY + EXTRA
DIRECT = set(BINARY + UNARY + ['regnum', 'regsym', 'dual', 'regnum2'])
TYPES = ['int', 'float', 'Fraction', 'complex', 'ndarray', 'listarr', 'sympy', 'mixed']
PATTERNS = {'A': 'even', 'B': 'vector', 'N': 'vector (keys written as blade names)'}


class Probe:
    """Counts generation events while installed."""

    def __init__(self):
        self.events = []
        self.compiles = 0
        self.unattributed = 0

    def install(self):
        import kingdon
        import kingdon.operator_dict as od
        import kingdon.multivector as mvmod
        kdir = os.path.dirname(os.path.realpath(kingdon.__file__)) + os.sep
        self._orig = (builtins.compile, od.do_codegen, od.do_compile)
        orig_compile, orig_codegen, orig_docompile = self._orig
        probe = self

        def counting_compile(*a, **k):
            fn = sys._getframe(1).f_code.co_filename
            if fn.startswith(kdir):
                probe.compiles += 1
            return orig_compile(*a, **k)

        # a generation that raises (e.g. polarity in a degenerate metric, a structurally singular division) produces no
        # function and caches nothing; only completed generations are events
        def counting_codegen(codegen, *mvs):
            out = orig_codegen(codegen, *mvs)
            probe.events.append((probe.label(codegen), tuple(tuple(m.keys()) for m in mvs)))
            return out

        def counting_docompile(codegen, *tapes):
            out = orig_docompile(codegen, *tapes)
            probe.events.append(('compile:' + probe.label(codegen), tuple(tuple(t.keys()) for t in tapes)))
            return out
        builtins.compile = counting_compile
        od.do_codegen = counting_codegen
        od.do_compile = counting_docompile
        self._od = od

    def uninstall(self):
        builtins.compile, self._od.do_codegen, self._od.do_compile = self._orig

    def label(self, codegen):
        """Operator identity: name plus a serial number per distinct codegen object (two user expressions may share a name)."""
        n = getattr(codegen, '__name__', '?')
        ids = self.__dict__.setdefault('_ids', {})
        lst = ids.setdefault(n, [])
        if not any(c is codegen for c in lst):
            lst.append(codegen)
        k = next(i for i, c in enumerate(lst) if c is codegen)
        return n if k == 0 else f'{n}#{k + 1}'

    def mark(self):
        return len(self.events), self.compiles


def values(kind, n, salt):
    import numpy as np
    import sympy
    base = [2 + i + salt for i in range(n)]
    if kind == 'zeros':
        return [0] * n        # makes inverse / division raise at run time, after the function was generated
    if kind == 'int':
        return base
    if kind == 'float':
        return [float(b) + 0.5 for b in base]
    if kind == 'Fraction':
        return [F(b, 3) for b in base]
    if kind == 'complex':
        return [complex(b, 1) for b in base]
    if kind == 'ndarray':
        return np.array([[float(b), float(b) + 1] for b in base])
    if kind == 'listarr':
        return [np.array([float(b), float(b) + 1]) for b in base]
    if kind == 'sympy':
        return [sympy.Symbol(f's{salt}_{i}') for i in range(n)]
    if kind == 'mixed':
        return [sympy.Symbol(f'm{salt}_{i}') if i % 2 else F(b) for i, b in enumerate(base)]
    raise ValueError(kind)


def make_world(algname):
    from kingdon import Algebra
    alg = Algebra(3) if algname == 'vga3' else Algebra(7) if algname == 'vga7' else Algebra(2, 0, 1)
    w = {'alg': alg}

    def rn(a, b):
        return a * b + (a | b)

    def rs(a, b):
        return (a ^ b) - a
    def rn2(a, b):
        return a * b - (a | b)
    rn2.__name__ = 'rn'          # a second registered expression that happens to have the same name (e.g. redefined in a loop)
    w['regnum'] = alg.register(rn)
    w['regnum2'] = alg.register(rn2)
    w['regsym'] = alg.register(symbolic=True)(rs)
    return w


def operand(w, pattern, kind, salt):
    alg = w['alg']
    if alg.d >= 7:
        c = tuple(alg.canon2bin.values())
        keys = (c[0], c[1] ^ c[2], c[3] ^ c[4]) if pattern == 'A' else (c[1], c[2], c[3])
    else:
        keys = alg.indices_for_grades[(0, 2)] if pattern == 'A' else alg.indices_for_grades[(1,)]
    if pattern == 'N':
        # the vector pattern written with blade names (accepted wherever keys are accepted; fromkeysvalues keeps them as given)
        from kingdon import MultiVector
        keys = alg.indices_for_grades[(1,)]
        return MultiVector.fromkeysvalues(alg, tuple(alg.bin2canon[k] for k in keys), values(kind, len(keys), salt))
    # a fresh tuple object per operand (like the results of real operations): the pattern, not the object, is the cache key
    return alg.multivector(keys=tuple(list(keys)), values=values(kind, len(keys), salt))


def do_call(w, form, pattern, kind, salt):
    x = operand(w, pattern, kind, salt)
    y = operand(w, 'B', kind if kind != 'mixed' else 'Fraction', salt + 7)
    if form in BINARY:
        return getattr(x, form)(y)
    if form in UNARY:
        return getattr(x, form)()
    if form == 'pow3':
        return x ** 3
    if form == 'pow-2':
        return x ** -2
    if form == 'norm':
        return x.norm()
    if form == 'normalized':
        return x.normalized()
    if form == 'dual':
        return x.dual()
    if form == 'exp':
        return x.grade(2).exp() if pattern == 'A' else x.exp()
    if form == 'regnum':
        return w['regnum'](x, y)
    if form == 'regsym':
        return w['regsym'](x, y)
    if form == 'regnum2':
        return w['regnum2'](x, y)
    if form.startswith('regnamed:'):
        # a user expression that merely has the *name* of a built-in operator is registered (and called): the built-in
        # operator of that name is another object and keeps everything it has generated
        op = form.split(':')[1]
        ns = {}
        if op in BINARY:
            exec(f'def {op}(a, b):\n    return (a ^ b) + b\n', ns)
            return w['alg'].register(ns[op])(x, y)
        exec(f'def {op}(a):\n    return a * a\n', ns)
        return w['alg'].register(ns[op])(x)
    raise ValueError(form)


def cache_state(alg):
    st = set()
    for name, od in alg.registry.items():
        nm = name if isinstance(name, str) else 'reg:' + getattr(name, '__name__', '?')
        for kin in od.operator_dict:
            st.add((nm, kin))
    return st


def run_history(algname, hist, probe, res, states):
    """hist = list of (form, pattern, type).  Returns None; violations go to res."""
    w = make_world(algname)
    alg = w['alg']
    generated = {}
    prev_state = cache_state(alg)
    states.add(frozenset(prev_state))
    completed = set()       # (form, pattern) calls that returned or raised after their generation finished
    for step, (form, pattern, kind) in enumerate(hist):
        e0, c0 = probe.mark()
        err = None
        if kind.endswith('@thread'):
            # a strictly sequential history, but this call is made by another thread (started now, joined before the next call)
            import threading
            box = []

            def runner():
                try:
                    do_call(w, form, pattern, kind.split('@')[0], salt=step)
                except Exception as e:
                    box.append(type(e).__name__)
            t = threading.Thread(target=runner)
            t.start()
            t.join()
            err = box[0] if box else None
        else:
            try:
                do_call(w, form, pattern, kind, salt=step)
            except Exception as e:
                err = type(e).__name__
        e1, c1 = probe.mark()
        new_events = probe.events[e0:e1]
        st = cache_state(alg)
        states.add(frozenset(st))
        res.transitions += 1
        case = {'alg': algname, 'history': [list(h) for h in hist[:step + 1]]}
        # composite forms (pow, exp, norm, ...) pass intermediate results on, whose key patterns legitimately depend on the
        # coefficient type (symbolic results are filtered); they are judged by the per-label invariant below only.
        repeat = (form, pattern) in completed and form in DIRECT
        if repeat and (new_events or c1 > c0):
            first = next(h for h in hist[:step] if h[0] == form and h[1] == pattern)
            res.violate(violation(f'regenerated:{form}:{first[2]}->{kind}',
                                  f'{algname}: {form} on pattern {PATTERNS[pattern]} was called with {first[2]} coefficients and then again with {kind} '
                                  f'coefficients: the second call triggered {len(new_events)} generation and {c1 - c0} compile() events',
                                  case, '0 events', f'{new_events[:3]} compiles={c1 - c0}'))
        for ev in new_events:
            generated[ev] = generated.get(ev, 0) + 1
            if generated[ev] > 1:
                res.violate(violation(f'generated-twice:{ev[0]}', f'{algname}: {ev} generated twice within history {hist[:step + 1]}', case, 1, generated[ev]))
        if not new_events and c1 > c0 and form not in ('regsym',):
            # compile without a labelled generation event: an un-attributed generation path
            res.count('unattributed_compiles', c1 - c0)
        if not prev_state <= st:
            res.violate(violation('cache-shrinks', f'{algname}: cache lost entries {sorted(prev_state - st)[:3]} during {form}', case, 'monotone', 'shrunk'))
        # the call counts as completed if it returned, or if it raised only after all generation it started had
        # finished (every generation event left a cache entry); a call that fails *during* generation caches nothing
        # and is not judged.
        if err is None or (new_events and len(st - prev_state) == len(new_events)):
            completed.add((form, pattern))
        prev_state = st
        res.outcomes.add(f'{form}:{pattern}:{kind}:{err}')


def histories(tier, algname):
    out = []
    calls = [(f, p) for f in FORMS for p in 'AB']
    # [c, c']: complete
    for (f, p) in calls:
        for t1 in TYPES:
            for t2 in TYPES:
                out.append([(f, p, t1), (f, p, t2)])
    for (f, p) in calls:
        if f in DIRECT or f in ('pow3', 'norm'):
            out.append([(f, p, 'int'), (f, p, 'float@thread'), (f, p, 'Fraction')])
    # key patterns written with blade names
    for f in BINARY + UNARY:
        out.append([(f, 'N', 'int'), (f, 'N', 'Fraction'), (f, 'N', 'float')])
    # registering a user expression named like the operator between two calls of the operator
    for (f, p) in calls:
        if f in DIRECT:
            out.append([(f, p, 'int'), ('regnamed:' + f, p, 'int'), (f, p, 'Fraction')])
    # a call with the same pattern whose values make the generated function raise at run time must not invalidate the cache
    for (f, p) in calls:
        if f in DIRECT:
            out.append([(f, p, 'int'), (f, p, 'zeros'), (f, p, 'Fraction')])
    if tier == 'quick':
        cs = [(f, 'A', t) for f in FORMS for t in ('int', 'sympy')]
        os_ = [(f, 'A', 'Fraction') for f in FORMS]
        t3 = ('ndarray', 'mixed')
    else:
        cs = [(f, p, t) for (f, p) in calls for t in ('int', 'sympy', 'ndarray', 'Fraction')]
        os_ = [(f, p, 'Fraction') for (f, p) in calls]
        t3 = TYPES
    for c in cs:
        for o in os_:
            if (o[0], o[1]) == (c[0], c[1]):
                continue
            for t in t3:
                out.append([c, o, (c[0], c[1], t)])
    if tier == 'thorough':
        sub = ['gp', 'sw', 'div', 'inv', 'normsq', 'sqrt', 'norm', 'normalized', 'pow3', 'regnum', 'regsym', 'outertan']
        for c, o1, o2 in product(sub, repeat=3):
            if len({c, o1, o2}) == 3:
                for t in ('float', 'sympy'):
                    out.append([(c, 'A', 'int'), (o1, 'A', 'Fraction'), (o2, 'B', 'Fraction'), (c, 'A', t)])
    return out


def long_history(task):
    """One long history on one algebra: N distinct key patterns of one operator, then the first ones again.
    Bounded caches / eviction / cache resets only show after many distinct patterns."""
    algname, opname, n = task
    from itertools import combinations, permutations
    res = Result()
    probe = Probe()
    probe.install()
    try:
        from kingdon import Algebra, MultiVector
        alg = Algebra(4)
        keys = list(alg.canon2bin.values())
        pats = []
        for k in (1, 2, 3):
            for c in combinations(keys, k):
                for p in permutations(c):
                    pats.append(p)
                    if len(pats) >= n:
                        break
                if len(pats) >= n:
                    break
            if len(pats) >= n:
                break
        b = MultiVector.fromkeysvalues(alg, (keys[1],), [2])

        def call(p, v):
            x = MultiVector.fromkeysvalues(alg, p, [v + i for i in range(len(p))])
            return getattr(x, opname)(b) if opname in BINARY else getattr(x, opname)()
        od = getattr(alg, opname)
        sizes = []
        for p in pats:
            call(p, 1)
            res.transitions += 1
            sizes.append(len(od))
        if any(b2 < a for a, b2 in zip(sizes, sizes[1:])) or len(od) < len(pats):
            res.violate(violation(f'long-history:cache-shrinks:{opname}', f'after {len(pats)} distinct key patterns of {opname} the cache holds {len(od)} entries (sizes not monotone)',
                                  {'long': [algname, opname, n]}, len(pats), len(od)))
        for p in pats[:5] + pats[len(pats) // 2: len(pats) // 2 + 3]:
            e0, c0 = probe.mark()
            call(p, 2.5)
            res.transitions += 1
            e1, c1 = probe.mark()
            if e1 > e0 or c1 > c0:
                res.violate(violation(f'long-history:regenerated:{opname}', f'{opname} pattern {p} was generated again after {len(pats)} other patterns had been used', {'long': [algname, opname, n]},
                                      '0 events', f'{probe.events[e0:e1][:2]} compiles={c1 - c0}'))
                break
        res.evals += 1
        res.states = 1
    finally:
        probe.uninstall()
    d = res.asdict()
    d['state_keys'] = [hash((opname, n))]
    d['events_seen'] = len(probe.events)
    d['compiles_seen'] = probe.compiles
    return d


FORMS7 = ['gp', 'op', 'ip', 'add', 'sub', 'sw', 'neg', 'reverse', 'hodge', 'normsq', 'regnum']


def histories7():
    out = []
    for f in FORMS7:
        for p in 'AB':
            for t1, t2 in (('int', 'float'), ('Fraction', 'ndarray'), ('int', 'sympy')):
                out.append([(f, p, t1), (f, p, t2)])
            for o in FORMS7:
                if o != f:
                    out.append([(f, p, 'int'), (o, 'A', 'Fraction'), (f, p, 'float')])
    return out


def run_chunk(task):
    algname, hists = task
    from .. import bootstrap
    res = Result()
    probe = Probe()
    probe.install()
    states = set()
    try:
        for h in hists:
            run_history(algname, [tuple(x) for x in h], probe, res, states)
            res.evals += 1
    finally:
        probe.uninstall()
    d = res.asdict()
    d['state_keys'] = [hash(s) for s in states]
    d['events_seen'] = len(probe.events)
    d['compiles_seen'] = probe.compiles
    return d


def drive(ctx):
    tier = ctx.tier
    res = Result()
    allstates = set()
    events = compiles = 0
    for algname in (['vga3'] if tier == 'quick' else ['vga3', 'pga2']):
        hs = histories(tier, algname)
        # interleave so that chunks have similar cost
        n = min(len(hs), 16 * 12)
        tasks = [(algname, hs[i::n]) for i in range(n)]
        for out in ctx.map('run_chunk', tasks):
            allstates |= set(out.pop('state_keys'))
            events += out.pop('events_seen')
            compiles += out.pop('compiles_seen')
            merge(ctx.agg, out)
        ctx.agg['extra'][f'histories[{algname}]'] = len(hs)
    # d = 7 (lazy blade table, no precomputed blades): reduced alphabet
    hs7 = histories7()
    for out in ctx.map('run_chunk', [('vga7', hs7[i::16]) for i in range(16)]):
        allstates |= set(out.pop('state_keys'))
        events += out.pop('events_seen')
        compiles += out.pop('compiles_seen')
        merge(ctx.agg, out)
    ctx.agg['extra']['histories[vga7]'] = len(hs7)
    # long histories: many distinct patterns of one operator on one algebra
    n = 700 if tier == 'quick' else 2500
    lops = ['gp', 'neg'] if tier == 'quick' else ['gp', 'add', 'neg', 'reverse', 'ip', 'normsq', 'sub']
    for out in ctx.map('long_history', [('vga4', o, n) for o in lops]):
        allstates |= set(out.pop('state_keys'))
        events += out.pop('events_seen')
        compiles += out.pop('compiles_seen')
        merge(ctx.agg, out)
    ctx.agg['extra']['long_histories'] = {'operators': lops, 'distinct_patterns_each': n}
    ctx.agg['states'] = len(allstates)
    ctx.agg['traces'] = ctx.agg['evals']
    ctx.agg['nontrivial'] = len(allstates)
    ctx.agg['extra']['generation_events_observed'] = events
    ctx.agg['extra']['compile_calls_observed'] = compiles
    ctx.agg['samples'] = [{'history': [['sw', 'A', 'int'], ['div', 'A', 'Fraction'], ['sw', 'A', 'ndarray']],
                           'meaning': 'third call must trigger zero generation/compile events'},
                          {'history': [['regsym', 'B', 'sympy'], ['regsym', 'B', 'complex']]}]
    if events == 0 or compiles == 0:
        raise RuntimeError('framework error: the probes observed no generation events at all (observation points lost)')


def replay(case):
    if 'long' in case:
        out = long_history(tuple(case['long']))
        for k in ('state_keys', 'events_seen', 'compiles_seen'):
            out.pop(k)
        return out
    res = Result()
    probe = Probe()
    probe.install()
    try:
        run_history(case['alg'], [tuple(x) for x in case['history']], probe, res, set())
    finally:
        probe.uninstall()
    return res.asdict()
