"""C12  Symbolic evaluation commutes with numeric evaluation."""
from fractions import Fraction
from itertools import product

from .. import spaces, binprog
from ..common import Result, nmv, mvdict, show, cfg_name, cfg_repro, close
from ..harness import violation
from ..oracle import make_algebra

PID = 'C12'
LEVEL = 'exploration'
BINARY = ['gp', 'sw', 'cp', 'acp', 'ip', 'sp', 'lc', 'rc', 'op', 'rp', 'proj', 'add', 'sub', 'div']
UNARY = ['inv', 'neg', 'reverse', 'involute', 'conjugate', 'sqrt', 'polarity', 'unpolarity', 'hodge', 'unhodge', 'normsq',
         'outerexp', 'outersin', 'outercos', 'outertan', 'norm', 'normalized']
RULE = ('cases = (configuration, operator, key tuple(s), partition of the stored coefficients into symbolic / numeric, rational assignment); '
        'the symbolic result is evaluated (a) by keyword call, (b) by positional call in symbol-name order, (c) by sympy substitution of every '
        'coefficient, and all three must equal the operator applied to fully numeric operands. Symbol names are chosen so that name order differs '
        'from creation order (u10 < u2). distinct = distinct (configuration, operator, keys, partition); non-trivial = at least one symbolic '
        'coefficient and a non-zero numeric result.')
ASSUMPTIONS = ['numeric evaluation op(xn, yn) is the reference (decided by C02-C08); assignments at which it raises (poles) are skipped',
               'relative tolerance 1e-9 where floats occur (sqrt); exact rationals otherwise compared after conversion']
BOUNDS = {
    'quick': 'Algebra(2): 29 operators x canonical subsets <=2 blades (binary: x 4 fixed right operands) x all 2^k partitions (k<=4); Algebra(1,0,1), '
             'Algebra(1,1): unary all subsets, binary on a 5x3 menu; string coefficients; ordered tuples for gp',
    'thorough': 'sig(2) all 9 orderings; d=3: pqr(3) subsets <=2 blades x 4 right operands; ordered tuples <=3 blades in d=2 for 6 operators; 2 assignments',
}
ASSIGN = [[Fraction(3, 2), Fraction(-2, 3), Fraction(5, 4), Fraction(7, 3), Fraction(-1, 2), Fraction(2, 5), Fraction(4, 3), Fraction(-3, 4),
           Fraction(5, 7), Fraction(9, 5), Fraction(-7, 4), Fraction(1, 3), Fraction(8, 3), Fraction(-5, 6), Fraction(3, 7), Fraction(11, 4)],
          [Fraction(-1, 3), Fraction(5, 2), Fraction(2, 7), Fraction(-4, 5), Fraction(3, 1), Fraction(1, 6), Fraction(-2, 1), Fraction(7, 5),
           Fraction(1, 2), Fraction(-3, 2), Fraction(4, 7), Fraction(6, 5), Fraction(-1, 4), Fraction(2, 3), Fraction(5, 3), Fraction(-7, 2)]]
# tiny magnitudes: every product of two coefficients is below 1e-12 (a non-zero coefficient stays a coefficient however small it is)
TINY = [Fraction(k, 10 ** 7) for k in (3, -2, 5, 7, -1, 4, 6, -3, 8, 9, -7, 2, 11, -5, 13, 10)]
# creation order vs name order: 'u1' < 'u10' < 'u11' < 'u2' < ... as strings
NAMES = ['u2', 'u10', 'u1', 'u11', 'u3', 'u20', 'u12', 'u4', 'u30', 'u13', 'u5', 'u40', 'u14', 'u6', 'u50', 'u15']


# symbol names that coincide with identifiers of the generated source itself (parameters, temporaries of the cse pass)
NAMES_CLASH = ['y', 'x', 'B', 'A', 'b', 'a', 'x1', 'x0', 'args', 'X', 'Y', 'x2', 'kwargs', 'e', 'x10', 'mv']


MAIN = spaces.cfg_pqr(2, 0, 0)


def shards(tier, seed):
    sh = []

    def mk(stratum, cfg, kind, left, right, n, **kw):
        return [dict(stratum=stratum, cfg=cfg, kind=kind, left=list(left), right=list(right), chunk=(i, n), **kw) for i in range(n)]
    main = spaces.cfg_pqr(2, 0, 0)
    right4 = ('list', [[1], [0, 3], [2, 1], [0, 1, 2, 3]])
    sh += mk('Algebra(2): unary operators x all canonical subsets x all partitions', main, 'un', ('S', None), ('B',), 4)
    sh += mk('norm / normalized of single blades at a negative value (nested powers must not be denested)', main, 'un', ('S', 1), ('B',), 1, ops=['norm', 'normalized'], assign=1)
    sh += mk('Algebra(2): binary operators x subsets <=2 blades x 4 right operands x all partitions (k<=4)', main, 'bin', ('S', 2), right4, 11)
    sh += mk('string coefficients and ordered tuples (gp, sw, add, div)', main, 'bin', ('T', 2), ('list', [[2, 1], [3]]), 4, ops=['gp', 'sw', 'add', 'div'], strings=True)
    sh += mk('symbols named like identifiers of the generated source (x, y, A, B, a, b, x0, x1, args ..): 8 operators x subsets <=2 blades x 4 right operands x all partitions',
             main, 'bin', ('S', 2), right4, 6, ops=['gp', 'sw', 'add', 'div', 'op', 'rp', 'proj', 'cp'], clash=True)
    sh += mk('symbols named like identifiers of the generated source (x, y, A, B, a, b, x0, x1, args ..): 8 operators x subsets <=2 blades x 4 right operands x all partitions',
             main, 'un', ('S', None), ('B',), 2, ops=['reverse', 'inv', 'normsq', 'hodge', 'outerexp', 'sqrt'], clash=True)
    sh += mk('float coefficients of magnitude 1e-7 mixed with symbols (products below 1e-12 are still coefficients): 6 operators x subsets <=2 blades x 4 right operands x all partitions',
             spaces.cfg_pqr(1, 0, 1), 'bin', ('S', 2), right4, 4, ops=['gp', 'sw', 'proj', 'op', 'ip', 'add'], tiny=True)
    sh += mk('float coefficients of magnitude 1e-7 mixed with symbols (products below 1e-12 are still coefficients): 6 operators x subsets <=2 blades x 4 right operands x all partitions',
             main, 'un', ('S', None), ('B',), 1, ops=['normsq', 'reverse', 'hodge'], tiny=True)
    for i in range(5):
        sh.append(dict(stratum='coefficients that are non-polynomial sympy expressions (sqrt, log, cube root, exp of products), compared as functions at negative symbol values',
                       cfg=main, kind='exprcoef', chunk=(i, 5)))
    sh.append(dict(stratum='call history: 18 symbolic multivectors of one key pattern called one after the other (two orders)', cfg=main, kind='callhist'))
    sh.append(dict(stratum='call history: 18 symbolic multivectors of one key pattern called one after the other (two orders)', cfg=spaces.cfg_pqr(2, 0, 1), kind='callhist'))
    others = [spaces.cfg_pqr(1, 0, 1), spaces.cfg_pqr(1, 1, 0)] if tier == 'quick' else [spaces.cfg_sig(s) for s in spaces.sig(2)[1:]]
    for c in others:
        sh += mk('other d=2 configurations: unary all subsets, binary on a 5x3 menu', c, 'un', ('S', None), ('B',), 2)
        sh += mk('other d=2 configurations: unary all subsets, binary on a 5x3 menu', c, 'bin', ('list', [[], [1], [0, 3], [1, 2], [0, 1, 2, 3]]), ('list', [[2], [0, 3], [1, 2, 3]]), 5)
    if tier == 'thorough':
        for t in spaces.pqr(3):
            c = spaces.cfg_pqr(*t)
            sh += mk('d=3 pqr: unary subsets <=3 blades; binary subsets <=2 blades x 4 right operands', c, 'un', ('S', 3), ('B',), 8)
            sh += mk('d=3 pqr: unary subsets <=3 blades; binary subsets <=2 blades x 4 right operands', c, 'bin', ('S', 2), ('list', [[1], [0, 3], [2, 4], [0, 3, 5, 6]]), 12)
        sh += mk('Algebra(2): ordered tuples <=3 blades for 6 operators', main, 'bin', ('T', 3), ('list', [[2, 1], [3, 0]]), 8, ops=['gp', 'sw', 'ip', 'rp', 'sub', 'div'])
        sh += mk('second assignment', main, 'bin', ('S', 2), right4, 11, assign=1)
        sh += mk('second assignment', main, 'un', ('S', None), ('B',), 4, assign=1)
    return sh


def partitions(k):
    if k <= 4:
        return list(product((0, 1), repeat=k))
    out = [tuple([1] * k), tuple([0] * k), tuple(i % 2 for i in range(k)), tuple((i + 1) % 2 for i in range(k))]
    out += [tuple(1 if i == j else 0 for i in range(k)) for j in range(k)]
    return list(dict.fromkeys(out))


def run_call_history(shard):
    """Many symbolic multivectors of one key pattern are *called* one after the other in one process: whatever is memoised
    for the callable of a multivector must not leak into the next one (coefficients c*u and u+c for small integers c)."""
    import sympy
    res = Result()
    alg = make_algebra(shard['cfg'])
    name = cfg_name(shard['cfg'])
    u1, u2 = sympy.Symbol('u1'), sympy.Symbol('u2')
    vals = {'u1': Fraction(3, 2), 'u2': Fraction(-5, 3)}
    keys = tuple(alg.canon2bin.values())[1:3]
    fam = []
    for c in (-3, -2, -1, 1, 2, 3):
        fam += [[c * u1, u2 + c], [u1 + c, c * u2], [sympy.Rational(c, 3) * u1, u2 - c * u1]]
    for order in (fam, list(reversed(fam))):
        for coeffs in order:
            res.evals += 1
            res.nontrivial += 1
            # stored in canonical order in the first pass, in reversed (non-canonical) key order in the second
            kk, cc = (keys, list(coeffs)) if order is fam else (tuple(reversed(keys)), list(reversed(coeffs)))
            x = alg.multivector(keys=kk, values=cc)
            want = {k: c.subs({u1: sympy.Rational(3, 2), u2: sympy.Rational(-5, 3)}) for k, c in zip(keys, coeffs)}
            try:
                got = dict(x(**vals).items())
                got2 = dict(x(vals['u1'], vals['u2']).items())
            except Exception as e:
                res.violate(violation('call-history:raises', f'{name}: calling the symbolic multivector {coeffs} raises {type(e).__name__}: {e}', {'shard': shard}, str(want), repr(e)))
                continue
            for g in (got, got2):
                if any(not close(g.get(k, 0), Fraction(int(want[k].p), int(want[k].q)), 1e-9) for k in keys):
                    res.violate(violation('call-history:value', f'{name}: after calling other symbolic multivectors of the same key pattern, calling {coeffs} gives {g}', {'shard': shard},
                                          str(want), str(g)))
                    break
    # string coefficients equal what sympy.sympify makes of them (symbols, reserved constant names, expressions)
    for txt in ['a', 'b12', 'I', 'pi', 'E', '2*a', 'a+1', 'a**2', '-a', '1/3', 'oo', 'a*I', 'sqrt(2)']:
        res.evals += 1
        try:
            mv = alg.multivector(keys=keys[:1], values=[txt])
            got = list(mv.values())[0]
            want = sympy.sympify(txt)
            if got != want or type(got) is not type(want):
                res.violate(violation('string-coefficient', f'{name}: the string coefficient {txt!r} becomes {got!r} ({type(got).__name__})', {'shard': shard}, repr(want), repr(got)))
            kw = alg.multivector(**{alg.bin2canon[keys[0]]: txt})
            if list(kw.values())[0] != want:
                res.violate(violation('string-coefficient:keyword', f'{name}: keyword string coefficient {txt!r} becomes {list(kw.values())[0]!r}', {'shard': shard}, repr(want), repr(list(kw.values())[0])))
        except Exception as e:
            res.violate(violation('string-coefficient:raises', f'{name}: string coefficient {txt!r}: {type(e).__name__}: {e}', {'shard': shard}, txt, repr(e)))
    res.sample({'config': name, 'call_history': [str(c) for c in fam[:4]], 'family_size': len(fam)})
    return res.asdict()


def run_exprcoef(shard):
    """Coefficients that are sympy expressions which are not polynomial in the symbols (roots, logarithms, exponentials of
    products): the result is compared *as a function* at a point where the symbols are negative (u*v > 0, u < 0, v < 0), so
    any rewriting that is only valid for positive symbols (sqrt(u*v) -> sqrt(u)*sqrt(v)) shows."""
    import sympy
    res = Result()
    cfg = shard['cfg']
    alg = make_algebra(cfg)
    name = cfg_name(cfg)
    u, v = sympy.Symbol('u'), sympy.Symbol('v')
    env = {u: sympy.Rational(-2), v: sympy.Rational(-3)}
    exprs = [sympy.sqrt(u * v), sympy.log(u * v), (u * v) ** sympy.Rational(1, 3), sympy.sqrt(u * v) + u, sympy.exp(u) * sympy.sqrt(u * v * v * v / v)]
    c = tuple(alg.canon2bin.values())
    lefts = [t for t in spaces.S(c, 2) if t]
    i0, n = shard.get('chunk', (0, 1))
    lefts = spaces.chunks(lefts, n)[i0]
    rights = [(c[1],), (c[0], c[-1])]
    num = lambda e: complex(sympy.N(e.subs(env)))
    for a_i, ka in enumerate(lefts):
        for b_i, kb in enumerate(rights):
            xe = [exprs[(a_i + j) % len(exprs)] for j in range(len(ka))]
            ye = [sympy.Rational(3 + j, 2) for j in range(len(kb))]
            xs, ys = alg.multivector(keys=ka, values=xe), alg.multivector(keys=kb, values=ye)
            xn, yn = nmv(alg, ka, [num(e) for e in xe]), nmv(alg, kb, [complex(float(e)) for e in ye])
            for op in ('gp', 'add', 'op', 'sw', 'ip', 'proj'):
                res.evals += 1
                case = {'shard': dict(shard, only=[list(ka), list(kb), op])}
                try:
                    want, _ = mvdict(getattr(xn, op)(yn))
                except Exception:
                    res.skipped += 1
                    continue
                res.nontrivial += 1
                try:
                    rs = getattr(xs, op)(ys)
                    got = {}
                    for kk, val in rs.items():
                        got[kk] = got.get(kk, 0) + (num(val) if hasattr(val, 'subs') else complex(val))
                except Exception as e:
                    res.violate(violation(f'exprcoef:{op}:raises', f'{name} {op} keys {ka} x {kb} with coefficients {xe}: {type(e).__name__}: {e}', case, show(want), repr(e)))
                    continue
                bad = [kk for kk in set(got) | set(want) if not close(got.get(kk, 0), want.get(kk, 0), 1e-9)]
                if bad:
                    res.violate(violation(f'exprcoef:{op}:value', f'{name} {op} keys {ka} x {kb} with coefficients {xe}: evaluated at u=-2, v=-3 the result differs from the numeric '
                                          f'result on blades {sorted(bad)}', case, show(want), show(got)))
    res.sample({'config': name, 'expression_coefficients': [str(e) for e in exprs], 'point': 'u=-2, v=-3'})
    return res.asdict()


def run_shard(shard):
    if shard.get('kind') == 'callhist':
        return run_call_history(shard)
    if shard.get('kind') == 'exprcoef':
        return run_exprcoef(shard)
    import sympy
    res = Result()
    cfg = shard['cfg']
    alg = make_algebra(cfg)
    name = cfg_name(cfg)
    kind = shard['kind']
    A = TINY if shard.get('tiny') else ASSIGN[shard.get('assign', 0)]
    tiny = bool(shard.get('tiny'))
    ops = shard.get('ops') or (UNARY if kind == 'un' else BINARY)
    head = f"from fractions import Fraction\nimport sympy\nfrom kingdon import Algebra\nalg = {cfg_repro(cfg)}\n"
    for ka, kb in binprog.pairs(shard if kind == 'bin' else {**shard, 'diag': True}, alg):
        keysets = [ka] if kind == 'un' else [ka, kb]
        k = sum(len(x) for x in keysets)
        for part in partitions(k):
            if k and not any(part) and part != tuple([0] * k):
                continue
            # build operands
            syms, vals, ops_s, ops_n, pos = {}, {}, [], [], 0
            for ks in keysets:
                vs, vn = [], []
                for key in ks:
                    v = A[pos % len(A)]
                    if part[pos]:
                        nm = (NAMES_CLASH if shard.get('clash') else NAMES)[pos % len(NAMES)]
                        if shard.get('strings') and pos % 2 == 0:
                            vs.append(nm)            # string coefficient, sympified by the constructor
                        else:
                            vs.append(sympy.Symbol(nm))
                        syms[nm] = v
                    else:
                        vs.append(float(v) if tiny else v)
                    vn.append(float(v) if tiny else v)
                    pos += 1
                ops_s.append(alg.multivector(keys=tuple(ks), values=vs))
                ops_n.append(nmv(alg, ks, vn))
            for op in ops:
                if op == 'sqrt' and not (0 in ka and len(ka) <= 2):
                    continue
                if op in ('norm', 'normalized') and (len(ka) != 1 or cfg != MAIN or 0 < sum(part) < k):
                    continue      # sympy needs seconds per nested square root: single blades of the main algebra only
                case = {'shard': dict(shard, left=['list', [list(ka)]], right=['list', [list(kb)]] if kind == 'bin' else ['B'], chunk=(0, 1), ops=[op])}
                repro = head + f"# operator {op}, keys {keysets}, symbolic coefficients {sorted(syms)} -> values {[str(syms[s]) for s in sorted(syms)]}"
                try:
                    want, _ = mvdict(getattr(ops_n[0], op)(*ops_n[1:]))
                except Exception:
                    res.skipped += 1
                    continue
                res.evals += 1
                if syms and any(v != 0 for v in want.values()):
                    res.nontrivial += 1
                key = f'{op}:{"mixed" if 0 < sum(part) < k else "allsym" if syms else "numeric"}'
                try:
                    rs = getattr(ops_s[0], op)(*ops_s[1:])
                    free = sorted(rs.free_symbols, key=lambda s: s.name)
                    ev = {}
                    ev['kwargs'] = mvdict(rs(**{s.name: syms[s.name] for s in free}))[0] if free else mvdict(rs)[0]
                    ev['positional'] = mvdict(rs(*[syms[s.name] for s in free]))[0] if free else mvdict(rs)[0]
                    sub = {}
                    for kk, v in rs.items():
                        v2 = v.subs({s: sympy.Rational(syms[s.name].numerator, syms[s.name].denominator) for s in free}) if hasattr(v, 'subs') else v
                        sub[kk] = sub.get(kk, 0) + v2
                    ev['subs'] = sub
                except Exception as e:
                    res.violate(violation(key + ':raises', f'{name} {op} keys {keysets} partition {part}: symbolic evaluation raises {type(e).__name__}: {e}',
                                          case, show(want), repr(e), repro))
                    continue
                extra = set(s.name for s in free) - set(syms)
                if extra:
                    res.violate(violation(key + ':foreign-symbols', f'{name} {op}: result has free symbols {sorted(extra)} not present in the operands', case, sorted(syms), sorted(extra), repro))
                scale = max([abs(complex(v)) for v in want.values()] + [0.0]) if tiny else None
                for how, got in ev.items():
                    bad = []
                    for kk in set(got) | set(want):
                        if tiny:
                            # floats of tiny magnitude: tolerance relative to the largest coefficient of the result, no absolute floor
                            try:
                                if abs(complex(got.get(kk, 0)) - complex(want.get(kk, 0))) > 1e-9 * scale:
                                    bad.append(kk)
                            except Exception:
                                bad.append(kk)
                            continue
                        g = got.get(kk, 0)
                        if hasattr(g, 'evalf') and not isinstance(g, (int, float, Fraction)):
                            try:
                                g = complex(g) if not g.is_real else float(g)
                            except Exception:
                                pass
                        if not close(g, want.get(kk, 0), 1e-9):
                            bad.append(kk)
                    if bad:
                        res.violate(violation(f'{key}:{how}', f'{name} {op} keys {keysets} partition {part}: evaluation by {how} differs from the numeric '
                                              f'result on blades {sorted(bad)}', case, show(want), show(got), repro))
                        break
                else:
                    if len(res.samples) < 2 and 0 < sum(part) < k and len(want) >= 2:
                        res.sample({'config': name, 'op': op, 'keys': [list(x) for x in keysets], 'partition': list(part), 'symbols': {s: str(v) for s, v in syms.items()}, 'numeric': show(want)})
    return res.asdict()
