"""Concurrent part of C09: every interleaving of small thread harnesses on one Algebra up to a preemption bound."""
import os
import sys
import threading

from .. import sched
from ..explore import outcome
from ..harness import violation
from . import C09

KINGDON_DIR = None


def _match(filename):
    global KINGDON_DIR
    if KINGDON_DIR is None:
        import kingdon
        KINGDON_DIR = os.path.dirname(os.path.realpath(kingdon.__file__)) + os.sep
    # polynomial.py is excluded: its functions only touch objects reachable from their arguments, which are
    # created by the calling thread during its own code generation (thread local), so their steps commute
    # with every step of the other threads (partial order reduction with a one-line argument).
    return filename.startswith(KINGDON_DIR) and not filename.endswith('polynomial.py')


# harness id -> (world, [thread bodies as lists of symbols])
HARNESSES = {
    'w:gp1|gp2': ('vga2+w', [['gp1'], ['gp2']]),          # same key set, different order, wrapper path
    'f2|gp1': ('vga2', [['f2'], ['gp1']]),                # registered function resolves callee by name at call time
    'w:sw2|inv5': ('pga2+w', [['sw2'], ['inv5']]),
    'gp5|gp5': ('pga2', [['gp5'], ['gp5']]),              # both threads generate the same pattern
    'w:gp5|gp5': ('pga2+w', [['gp5'], ['gp5']]),          # same pattern under a wrapper: lookup by name vs publication order
    'w:f2|f2': ('vga2+w', [['f2'], ['f2']]),              # same registered function and pattern from two threads, wrapper
    'w:inv5|inv5': ('vga2+w', [['inv5'], ['inv5']]),
    'w:f2,gp1|sq5': ('vga2+w', [['f2', 'gp1'], ['sq5']]),
    'gp1|gp2|f2': ('vga2+w', [['gp1'], ['gp2'], ['f2']]),
    'hs2|call2': ('vga2', [['hs2'], ['call2']]),
    'div0|gp2': ('pga2+w', [['div0'], ['gp2']]),          # one thread raises during generation
}
PLAN = {
    'quick': [('w:gp1|gp2', 1, None), ('f2|gp1', 1, None), ('gp5|gp5', 1, None), ('w:gp5|gp5', 1, None)],
    'thorough': [('w:gp5|gp5', 1, None), ('w:f2|f2', 1, None), ('w:inv5|inv5', 1, None), ('f2|gp1', 1, None), ('gp5|gp5', 1, None), ('w:sw2|inv5', 1, None), ('w:f2,gp1|sq5', 1, None), ('gp1|gp2|f2', 1, None),
                 ('hs2|call2', 1, None), ('div0|gp2', 1, None), ('w:gp5|gp5', 2, 'cache'), ('f2|gp1', 2, 'cache'), ('gp5|gp5', 2, 'cache'), ('w:gp1|gp2', 2, None)],
}
_tier = ['quick']


def _wid(h):
    return f'{HARNESSES[h][0]}|thorough'   # the thorough alphabet contains every symbol used by the harnesses


def make_bodies(h):
    wid = _wid(h)
    ctx = C09.make_world(wid)
    bodies = []
    for syms in HARNESSES[h][1]:
        def body(syms=syms):
            return [outcome(C09.SYMBOLS[s], ctx, C09.normalise) for s in syms]
        bodies.append(body)
    make_bodies.ctx = ctx
    make_bodies.before = C09.snapshot(ctx)
    return bodies


def expected(h):
    wid = _wid(h)
    return tuple(tuple(outcome(C09.SYMBOLS[s], C09.make_world(wid), C09.normalise) for s in syms) for syms in HARNESSES[h][1])


def cache_filter(loc):
    """Scheduling points restricted to the cache / namespace manipulation sites (bound-2 stratum of large harnesses)."""
    if len(loc) < 2 or not isinstance(loc[1], int):
        return True           # thread start / exit points
    f, line = loc[0], loc[1]
    return f in ('operator_dict.py',) or (f == 'codegen.py' and isinstance(line, int) and (590 <= line <= 660 or 760 <= line <= 780))


FILTERS = {None: None, 'cache': cache_filter}


def thread_task(task):
    h, bound, filt, items = task
    exp = expected(h)

    def observe(run):
        errs = tuple(type(e).__name__ if e else None for e in run.errors)
        res = tuple(tuple(r) if r is not None else None for r in run.results)
        mutated = C09.snapshot(make_bodies.ctx) != make_bodies.before
        return repr((res, errs, mutated))
    tot = {'schedules': 0, 'max_points': 0, 'outcomes': {}, 'divergences': 0, 'first': {}}
    for prefix, locs in items:
        try:
            st = sched.explore_subtree(lambda: make_bodies(h), observe, prefix, bound, _match, expect_locs=locs, point_filter=FILTERS[filt])
        except sched.Hang as e:
            tot['outcomes'][f'HANG {e}'] = tot['outcomes'].get(f'HANG {e}', 0) + 1
            tot['first'].setdefault(f'HANG {e}', list(prefix))
            continue
        tot['schedules'] += st['schedules']
        tot['max_points'] = max(tot['max_points'], st['max_points'])
        tot['divergences'] += st['divergences']
        for o, n in st['outcomes'].items():
            tot['outcomes'][o] = tot['outcomes'].get(o, 0) + n
            tot['first'].setdefault(o, st['first'][o])
    tot['expected'] = repr((exp, tuple(None for _ in exp), False))
    return tot


def free_running(h, rounds):
    """Smoke pass without the scheduler (real preemption at a 1 microsecond switch interval)."""
    exp = expected(h)
    old = sys.getswitchinterval()
    sys.setswitchinterval(1e-6)
    bad = 0
    try:
        for _ in range(rounds):
            bodies = make_bodies(h)
            out = [None] * len(bodies)

            def run(i):
                out[i] = tuple(bodies[i]())
            ths = [threading.Thread(target=run, args=(i,)) for i in range(len(bodies))]
            for t in ths:
                t.start()
            for t in ths:
                t.join()
            if tuple(out) != exp:
                bad += 1
    finally:
        sys.setswitchinterval(old)
    return bad


def drive(ctx, res, tier):
    from ..spaces import chunks
    _tier[0] = tier
    for h, bound, filt in PLAN[tier]:
        if ctx.time_left() < 0:
            ctx.capped.append(f'threads[{h}]: not started (time budget)')
            continue
        # The parent expands the root and every zero-cost (non-preemptive) deviation itself; each remaining child
        # prefix is the root of a disjoint subtree explored by a worker.
        f = FILTERS[filt]
        import time as _t
        t_h = _t.time()
        queue = [([], None)]
        singles, subtrees = [], []
        root = None
        while queue:
            pre, locs = queue.pop(0)
            r = sched.Run(make_bodies(h), pre, _match).run()
            if root is None:
                root = r
            singles.append((pre, locs))
            for i in range(len(pre), len(r.points)):
                order, running_enabled, loc = r.points[i]
                cost = sched.preemptions(r.points, r.choices, i) + (1 if running_enabled else 0)
                if cost > bound or (f is not None and not f(loc)):
                    continue
                for alt in range(1, len(order)):
                    child = (r.choices[:i] + [alt], [p[2] for p in r.points[:i]])
                    if cost == 0 and len(singles) + len(queue) < 8:
                        queue.append(child)
                    else:
                        subtrees.append(child)
        alts = [c[0] for c in subtrees]
        tasks = [(h, -1, None, singles)] + [(h, bound, filt, ch) for ch in chunks(subtrees, 160) if ch]
        outs = ctx.map('thread_task', tasks)
        schedules = sum(o['schedules'] for o in outs)
        outcomes = {}
        first = {}
        for o in outs:
            for k, n in o['outcomes'].items():
                outcomes[k] = outcomes.get(k, 0) + n
                first.setdefault(k, o['first'][k])
        divergences = sum(o['divergences'] for o in outs)
        exp = outs[0]['expected']
        res.evals += schedules
        res.traces += schedules
        res.transitions += sum(1 for _ in ())  # transitions are counted for the BFS only
        res.extra[f'threads[{h}]'] = {'world': HARNESSES[h][0], 'threads': HARNESSES[h][1], 'preemption_bound': bound,
                                      'point_filter': filt or 'all line events in kingdon/*.py',
                                      'scheduling_points_root': len(root.points), 'schedules': schedules, 'wall_s': round(_t.time() - t_h, 1),
                                      'distinct_observations': len(outcomes), 'replay_divergences': divergences}
        res.count('schedules_total', schedules)
        if divergences:
            raise RuntimeError(f'framework error: {divergences} schedule replays diverged in harness {h}')
        for o, n in outcomes.items():
            res.outcomes.add(f'threads[{h}]:{o}')
            if o != exp:
                w = 'wrapper' if HARNESSES[h][0].endswith('+w') else 'nowrapper'
                res.violate(violation(f'schedule:{w}:{h}', f'harness {h}: {n} of {schedules} schedules (preemption bound {bound}) give an observation '
                                      f'different from the sequential fresh-algebra results', {'world': _wid(h), 'history': [], 'harness': h,
                                                                                                   'schedule': first[o], 'bound': bound}, exp, o))
        if len(res.samples) < 5:
            res.samples.append({'harness': h, 'threads': HARNESSES[h][1], 'bound': bound, 'schedules': schedules,
                                'example_schedule': (alts[len(alts) // 2] if alts else [])[-12:]})
    # free running smoke pass (reported, not the deciding step)
    rounds = 50 if tier == 'quick' else 200
    bad = sum(free_running(h, rounds) for h, _, _ in PLAN[tier][:3])
    res.extra['free_running_smoke'] = {'rounds_per_harness': rounds, 'harnesses': [p[0] for p in PLAN[tier][:3]], 'mismatches': bad}
    if bad:
        res.violate(violation('free-running', f'{bad} free running executions differ from the sequential results', {'world': '', 'history': [], 'free': True}, 0, bad))


def replay(case):
    from ..common import Result
    res = Result()
    h = case['harness']
    exp = expected(h)
    r = sched.Run(make_bodies(h), case['schedule'], _match).run()
    errs = tuple(type(e).__name__ if e else None for e in r.errors)
    got = repr((tuple(tuple(x) if x is not None else None for x in r.results), errs, C09.snapshot(make_bodies.ctx) != make_bodies.before))
    want = repr((exp, tuple(None for _ in exp), False))
    if got != want:
        w = 'wrapper' if HARNESSES[h][0].endswith('+w') else 'nowrapper'
        res.violate(violation(f'schedule:{w}:{h}', 'replayed schedule', case, want, got))
    return res.asdict()
