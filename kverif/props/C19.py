"""C19  exp, outer exponentials, sqrt, powers and norms obey their identities."""
import cmath
import math
from fractions import Fraction
from itertools import product, combinations

from .. import spaces, binprog
from ..common import Result, gmv, nmv, mvdict, show, cfg_name, cfg_repro, close
from ..harness import violation
from ..oracle import make_algebra, ref_from_config, mv_to_ref, Ref
from ..ring import P, Trap

PID = 'C19'
LEVEL = 'exploration'
RULE = ('cases = (configuration, function, operand pattern, value point / coefficient type) inside the domains the statement names: outer exponentials on '
        'patterns without scalar part (generic point; Fractions for outertan), exp on every element of the enumerated families whose square is a scalar '
        '(decided by the reference algebra) with positive, zero and negative squares and coefficient types int/float/complex/numpy.float64/sympy, sqrt on '
        'Study numbers with positive scalar part, integer powers -6..10, norm/normalized where normsq is a positive scalar. Oracles: finite wedge-power sum, '
        '40-term power series, sqrt(x)^2 == x, repeated reference products, norm()^2 == normsq(), normalized().normsq() == 1. distinct = distinct '
        '(configuration, function, pattern, point, type); non-trivial = the operand has a non-zero non-scalar part.')
ASSUMPTIONS = ['reference algebra = word oracle (C01); relative tolerance 1e-9 where floats occur', 'exp() on numpy arrays is not judged (documented as unsupported)']
BOUNDS = {'quick': 'sig(d) d<=3; outer exponentials: grade blocks and subsets <=2 blades; exp: single blades and 2-blade combinations x grid {-2,-0.5,1,1.5}^k x 5 types; '
                   'sqrt: scalar + blade / pseudoscalar x 3x4 grid; powers -6..10 on subsets <=2 blades; norms on blades, vectors, even blocks',
          'thorough': 'adds sig(4), pqr(5), pqr(6) (outer exponentials on grade blocks, exp on blades and vectors), subsets <=3 blades for d<=3, larger grids'}


def shards(tier, seed):
    sh = []
    dmax = 3
    cfgs = [spaces.cfg_sig(s) for d in range(1, dmax + 1) for s in spaces.sig(d)]
    for c in cfgs:
        for kind in ('outer', 'exp', 'sqrt', 'pow', 'norm'):
            sh.append(dict(stratum=f'sig(d) d<=3: {kind}', cfg=c, kind=kind, size=2 if tier == 'quick' else 3, big=False))
    for c in [spaces.cfg_pqr(4, 0, 0), spaces.cfg_pqr(3, 0, 1), spaces.cfg_pqr(3, 1, 0)] + ([spaces.cfg_pqr(5, 0, 0), spaces.cfg_pqr(4, 0, 1)] if tier == 'thorough' else []):
        sh.append(dict(stratum='d=4,5: integer powers of blades, non-simple bivectors and mixed elements', cfg=c, kind='pow', size=1, big=True, powpats=True))
    # d=4: mixed-grade operands whose even part is a non-simple bivector (outer sine and cosine do not commute there)
    for c in [spaces.cfg_pqr(4, 0, 0), spaces.cfg_pqr(3, 0, 1), spaces.cfg_pqr(3, 1, 0)]:
        sh.append(dict(stratum='d=4: outer functions of non-simple bivector + vector / trivector', cfg=c, kind='outer', size=1, big=True,
                       only_pats=[[3, 12, 7], [3, 12, 1], [3, 12, 7, 8], [5, 10, 14, 2]]))
    if tier == 'thorough':
        big = [spaces.cfg_sig(s) for s in spaces.sig(4)[::3]] + [spaces.cfg_pqr(*t) for t in spaces.pqr(5)[::3]] + [spaces.cfg_pqr(*t) for t in [(6, 0, 0), (5, 0, 1), (4, 1, 1)]]
        for c in big:
            for kind in ('outer', 'exp', 'sqrt', 'norm'):
                sh.append(dict(stratum=f'd=4,5,6: {kind} on blades, vectors and grade blocks', cfg=c, kind=kind, size=1, big=True))
    return sh


def to_keys(alg, ref, x):
    out = {}
    for k, name in alg.bin2canon.items():
        s, B = ref.name_to_blade(name)
        if B in x:
            out[k] = x[B] if s > 0 else -x[B]
    return out


def is_scalar(refelem, tol=1e-12):
    return all(k == () or abs(complex(v)) <= tol for k, v in refelem.items())


def series_exp(ref, x, terms=40):
    tot = {(): 1.0}
    term = {(): 1.0}
    for k in range(1, terms):
        term = ref.gp(term, x)
        term = {b: v / k for b, v in term.items()}
        tot = Ref.add(tot, term)
        if not term:
            break
    return tot


def patterns(alg, shard):
    c = tuple(alg.canon2bin.values())
    if shard.get('powpats'):
        e12, e34, e13 = c[1] ^ c[2], c[3] ^ c[4], c[1] ^ c[3]
        return [(c[1],), (e12,), (e12, e34), (e34, e12, e13), (c[0], e12, e34), (c[1], e12 ^ c[3]), (c[-1],)]
    if shard['big']:
        g = spaces.grade_of
        pats = [(k,) for k in c[1:]][:12] + [tuple(k for k in c if g(k) == 1), tuple(k for k in c if g(k) == 2)] + [(c[-1],)]
        return list(dict.fromkeys(pats))
    return [p for p in binprog.expand(('S', shard['size']), alg) if p]


def run_shard(shard):
    import numpy as np
    import sympy
    res = Result()
    cfg = shard['cfg']
    alg = make_algebra(cfg)
    ref = ref_from_config(cfg)
    name = cfg_name(cfg)
    kind = shard['kind']
    case = {'shard': shard}
    head = f"from kingdon import Algebra\nalg = {cfg_repro(cfg)}\n"
    pats = patterns(alg, shard)
    tol = lambda a, b: close(a, b, 1e-9)

    def cmp_keys(got, want):
        return [k for k in set(got) | set(want) if not tol(got.get(k, 0), want.get(k, 0))]

    if kind == 'outer':
        G = [g for g in spaces.G(tuple(alg.canon2bin.values()), alg.d) if g and 0 not in g]
        if alg.d >= 5:
            # the generic outer exponential of a dense mixed-grade element of a 5- or 6-dimensional algebra does not finish: single grades
            # and vector+bivector only
            c_ = tuple(alg.canon2bin.values())
            G = [tuple(k for k in c_ if spaces.grade_of(k) in gs) for gs in ((1,), (2,), (3,), (1, 2), (alg.d - 1,))]
        todo = list(dict.fromkeys([p for p in pats if 0 not in p] + G))
        if shard.get('only_pats'):
            todo = [tuple(p) for p in shard['only_pats']]
        for keys in todo:
            x = gmv(alg, keys, 'x')
            rx = mv_to_ref(alg, ref, x)
            for fn in ('outerexp', 'outersin', 'outercos'):
                res.evals += 1
                res.nontrivial += 1
                want = to_keys(alg, ref, getattr(ref, fn)(rx))
                try:
                    import warnings
                    with warnings.catch_warnings():
                        warnings.simplefilter('ignore')
                        got, _ = mvdict(getattr(x, fn)())
                except Trap as e:
                    res.violate(violation(f'{fn}:trap', f'{name} {fn} keys {keys}: {e}', case, '', str(e)))
                    continue
                except Exception as e:
                    res.violate(violation(f'{fn}:raises', f'{name} {fn} keys {keys}: {type(e).__name__}: {e}', case, show(want), repr(e)))
                    continue
                bad = [k for k in set(got) | set(want) if not P.lift(got.get(k, 0)).close(P.lift(want.get(k, 0)), 1e-9)]
                if bad:
                    res.violate(violation(f'{fn}:value', f'{name} {fn} keys {keys}: differs from the finite wedge-power sum on blades {bad}', case, show(want), show(got),
                                          head + f"x = alg.multivector(keys={keys}, name='x'); print(x.{fn}())"))
            # outertan with Fractions (its generation divides symbolically: dense operands of d >= 5 do not finish)
            if alg.d >= 5 and len(keys) > 6:
                continue
            for vals in ([Fraction(1 + i, 2) for i in range(len(keys))], [Fraction((-1) ** i * (2 + i), 3) for i in range(len(keys))]):
                res.evals += 1
                xn = nmv(alg, keys, vals)
                rn = mv_to_ref(alg, ref, xn)
                ci = ref.inverse(ref.outercos(rn))
                if ci is None:
                    res.skipped += 1
                    continue
                want = to_keys(alg, ref, ref.gp(ref.outersin(rn), ci))
                try:
                    got, _ = mvdict(xn.outertan())
                except Exception as e:
                    res.violate(violation('outertan:raises', f'{name} outertan keys {keys} values {vals}: {type(e).__name__}: {e}', case, show(want), repr(e)))
                    continue
                if cmp_keys(got, want):
                    res.violate(violation('outertan:value', f'{name} outertan keys {keys} values {vals} != outersin * inverse(outercos)', case, show(want), show(got)))
        res.sample({'config': name, 'function': 'outerexp/outersin/outercos/outertan', 'patterns': len(pats)})
    elif kind == 'exp':
        grid = [-2.0, -0.5, 1.0, 1.5]
        types = {'int': lambda v: int(v) if float(v).is_integer() else None, 'float': float, 'complex': lambda v: complex(v, 0.25), 'np.float64': np.float64,
                 'sympy': lambda v: sympy.Rational(v).limit_denominator(100)}
        for keys in pats:
            if len(keys) > 2 and not shard['big']:
                continue
            if shard['big'] and len(keys) > 2:
                pts = [tuple(1.0 + 0.5 * i for i in range(len(keys))), tuple((-1) ** i * 0.75 for i in range(len(keys)))]
            else:
                pts = list(product(grid, repeat=len(keys)))
            for vals in pts:
                xr = {k: v for k, v in mv_to_ref(alg, ref, nmv(alg, keys, list(vals))).items()}
                sq = ref.gp(xr, xr)
                if not is_scalar(sq):
                    res.skipped += 1
                    continue
                s = sq.get((), 0.0)
                for tname, conv in types.items():
                    cv = [conv(v) for v in vals]
                    if any(v is None for v in cv):
                        continue
                    res.evals += 1
                    res.nontrivial += 1
                    x = nmv(alg, keys, cv)
                    if tname == 'complex':
                        xr2 = mv_to_ref(alg, ref, x)
                        if not is_scalar(ref.gp(xr2, xr2)):
                            continue
                        want = to_keys(alg, ref, series_exp(ref, xr2))
                    else:
                        want = to_keys(alg, ref, series_exp(ref, xr))
                    sign = 'positive' if s > 0 else 'zero' if s == 0 else 'negative'
                    repro = head + f"x = alg.multivector(keys={keys}, values={cv}); print(x.exp())"
                    try:
                        r = x.exp()
                        got, _ = mvdict(r)
                        if tname == 'sympy':
                            got = {k: complex(sympy.N(v)) if hasattr(v, 'evalf') else v for k, v in got.items()}
                    except Exception as e:
                        res.violate(violation(f'exp:{sign}-square:{tname}:raises', f'{name} exp of keys {keys} values {cv} (square {s}): {type(e).__name__}: {e}', case, show(want), repr(e), repro))
                        continue
                    if cmp_keys(got, want):
                        res.violate(violation(f'exp:{sign}-square:{tname}', f'{name} exp of keys {keys} values {cv} (square {s}) differs from the power series', case, show(want), show(got), repro))
            # symbolic exp checked by substitution (single symbol per blade)
            if len(keys) == 1 and not shard['big']:
                t = sympy.Symbol('t')
                try:
                    rs = nmv(alg, keys, [t]).exp()
                except Exception as e:
                    res.violate(violation('exp:symbolic:raises', f'{name} symbolic exp of blade {keys}: {type(e).__name__}: {e}', case, '', repr(e)))
                    continue
                for v in (0.5, -1.25, 2.0):
                    res.evals += 1
                    xr = mv_to_ref(alg, ref, nmv(alg, keys, [v]))
                    want = to_keys(alg, ref, series_exp(ref, xr))
                    got = {}
                    for k, e in rs.items():
                        try:
                            got[k] = complex(sympy.N(e.subs(t, v))) if hasattr(e, 'subs') else e
                        except Exception:
                            got[k] = float('nan')
                    if cmp_keys(got, want):
                        res.violate(violation('exp:symbolic:value', f'{name} symbolic exp of blade {keys} at t={v}', case, show(want), show(got)))
        res.sample({'config': name, 'function': 'exp', 'patterns': len(pats), 'types': list(types)})
    elif kind == 'sqrt':
        c = tuple(alg.canon2bin.values())
        cands = [(0, k) for k in c[1:]] if not shard['big'] else [(0, k) for k in (c[1], c[alg.d + 1], c[-1])]
        if not shard['big'] and alg.d >= 3:
            biv = [k for k in c if spaces.grade_of(k) == 2]
            cands += [(0,) + p for p in combinations(biv, 2)]
        cands = cands + [tuple(k[1:]) + (0,) for k in cands if len(k) == 2]     # the same Study numbers stored blade first
        for keys in cands:
            for a in (0.5, 2.0, 7.25):
                for bs in product((-3.0, -0.5, 0.25, 1.5), repeat=len(keys) - 1):
                    vals = [a] + list(bs)
                    if keys[0] != 0:
                        vals = list(bs) + [a]
                    x = nmv(alg, keys, vals)
                    xr = mv_to_ref(alg, ref, x)
                    B = {k: v for k, v in xr.items() if k != ()}
                    if not is_scalar(ref.gp(B, B)):
                        res.skipped += 1
                        continue
                    res.evals += 2
                    res.nontrivial += 1
                    repro = head + f"x = alg.multivector(keys={keys}, values={vals}); r = x.sqrt(); print(r*r, x)"
                    try:
                        r = x.sqrt()
                        rr = mv_to_ref(alg, ref, r)
                        sq = to_keys(alg, ref, ref.gp(rr, rr))
                        want, _ = mvdict(x)
                        if cmp_keys(sq, want):
                            res.violate(violation('sqrt:square', f'{name} sqrt of keys {keys} values {vals}: sqrt(x)*sqrt(x) != x', case, show(want), show(sq), repro))
                        p, _ = mvdict(x ** 0.5)
                        g, _ = mvdict(r)
                        if cmp_keys(p, g):
                            res.violate(violation('sqrt:pow0.5', f'{name} keys {keys} values {vals}: x**0.5 != sqrt(x)', case, show(g), show(p), repro))
                    except Exception as e:
                        res.violate(violation('sqrt:raises', f'{name} sqrt of keys {keys} values {vals}: {type(e).__name__}: {e}', case, '', repr(e), repro))
        res.sample({'config': name, 'function': 'sqrt, **0.5', 'study_number_patterns': len(cands)})
    elif kind == 'pow':
        for keys in pats:
            for vals in ([Fraction(2 + i, 1 + i % 2) for i in range(len(keys))], [Fraction((-1) ** i * (1 + i), 2) for i in range(len(keys))]):
                x = nmv(alg, keys, vals)
                xr = mv_to_ref(alg, ref, x)
                inv = ref.inverse(xr)
                for n in range(-6, 11):
                    res.evals += 1
                    if n < 0 and inv is None:
                        res.skipped += 1
                        continue
                    res.nontrivial += 1
                    want = to_keys(alg, ref, ref.pow(xr if n >= 0 else inv, abs(n)))
                    try:
                        got, _ = mvdict(x ** n)
                    except Exception as e:
                        res.violate(violation(f'pow:{"neg" if n < 0 else "nonneg"}:raises', f'{name} keys {keys} values {vals} ** {n}: {type(e).__name__}: {e}', case, show(want), repr(e)))
                        continue
                    if cmp_keys(got, want):
                        res.violate(violation(f'pow:{"neg" if n < 0 else "nonneg"}', f'{name} keys {keys} values {vals} ** {n} is not the repeated product', case, show(want), show(got),
                                              head + f"x = alg.multivector(keys={keys}, values={vals}); print(x**{n})"))
        res.sample({'config': name, 'function': 'x ** n, n in -6..10', 'patterns': len(pats)})
    elif kind == 'norm':
        c = tuple(alg.canon2bin.values())
        g = spaces.grade_of
        cands = list(dict.fromkeys([(k,) for k in c[1:]][:10] + [tuple(k for k in c if g(k) == 1), tuple(k for k in c if g(k) % 2 == 0), tuple(k for k in c if g(k) == 2)]))
        for keys in cands:
            if not keys:
                continue
            for vals in ([1.5 + 0.5 * i for i in range(len(keys))], [(-1) ** i * (0.75 + i) for i in range(len(keys))]):
                x = nmv(alg, keys, vals)
                xr = mv_to_ref(alg, ref, x)
                ns = ref.normsq(xr)
                if not is_scalar(ns) or not (ns.get((), 0) > 1e-9):
                    res.skipped += 1
                    continue
                res.evals += 2
                res.nontrivial += 1
                repro = head + f"x = alg.multivector(keys={keys}, values={vals}); print(x.norm()*x.norm(), x.normsq(), x.normalized().normsq())"
                try:
                    nrm = x.norm()
                    n2, _ = mvdict(nrm * nrm)
                    nsq, _ = mvdict(x.normsq())
                    if cmp_keys(n2, nsq) or cmp_keys(nsq, to_keys(alg, ref, ns)):
                        res.violate(violation('norm:square', f'{name} keys {keys} values {vals}: norm()**2 != normsq()', case, show(nsq), show(n2), repro))
                    u, _ = mvdict(x.normalized().normsq())
                    if cmp_keys(u, {0: 1.0}):
                        res.violate(violation('normalized', f'{name} keys {keys} values {vals}: normalized().normsq() != 1', case, '{0: 1.0}', show(u), repro))
                    # the identities hold for the *current* coefficients: after an in-place update through the public
                    # values() list nothing remembered from the calls above may be served
                    res.evals += 1
                    x.values()[0] = x.values()[0] * 3 + 1
                    n2b, _ = mvdict(x.norm() * x.norm())
                    nsqb, _ = mvdict(x.normsq())
                    ub, _ = mvdict(x.normalized().normsq())
                    if cmp_keys(n2b, nsqb) or cmp_keys(ub, {0: 1.0}):
                        res.violate(violation('norm:after-inplace-change', f'{name} keys {keys} values {vals}: after x.values()[0] was changed in place, norm()**2 != normsq() or normalized().normsq() != 1',
                                              case, show(nsqb) + ' / {0: 1.0}', show(n2b) + ' / ' + show(ub), repro))
                except Exception as e:
                    res.violate(violation('norm:raises', f'{name} keys {keys} values {vals}: {type(e).__name__}: {e}', case, '', repr(e), repro))
        res.sample({'config': name, 'function': 'norm, normalized', 'patterns': len(cands)})
    return res.asdict()
