"""C01  Basis-blade products follow the Clifford relations of the chosen signature.

Configurations are enumerated completely up to the bound (signature orderings x start index, custom bases by
bounded deviation from the default basis - all bases for d<=3), inputs are all ordered pairs (and triples) of
basis blades.  Two oracles: (1) the Clifford relations stated directly on kingdon's table, (2) the word oracle.
"""
import hashlib
from itertools import permutations, product

from .. import spaces
from ..common import Result, cfg_name, cfg_repro, mvdict
from ..harness import violation
from ..oracle import make_algebra, ref_from_config, sort_word

PID = 'C01'
LEVEL = 'exploration'
RULE = ('cases = (algebra configuration, ordered pair or triple of basis blades, or blade spelling); configurations and '
        'inputs enumerated completely per stratum. distinct = distinct (configuration, input); non-trivial = the '
        'reference product sign is non-zero (pairs) / both bracketings are non-zero (triples).')
ASSUMPTIONS = ['reference = word oracle (concatenate, bubble sort, contract with the metric entry of the label)']
BOUNDS = {
    'quick': 'sig(d) x start_index{0,1,2}, d<=4, all pairs, all triples d<=3; all custom bases d<=2 and <=1 deviation d=3 '
             'x sig(d); named algebras; pqr(7) lazy tables on a 3-generator-product sub-alphabet',
    'thorough': 'sig(d) x start_index{0,1,2}, d<=6, all pairs, all triples d<=4 (generators and their pair products above); '
                'all 1728 bases of d=3 x 27 signatures, <=2 deviations d=4 (x 9 signatures), <=1 deviation d=5; pqr(7), '
                'pqr(8) and single-deviation orderings of d=7, all 4^7 pairs on the lazily filled table in two fill orders',
}


def shards(tier, seed):
    sh = []
    maxd = 4 if tier == 'quick' else 6
    for d in range(maxd + 1):
        cfgs = [spaces.cfg_sig(s, start_index=st) for s in spaces.sig(d) for st in (None, 0, 1, 2)]
        n = {0: 1, 1: 1, 2: 1, 3: 4, 4: 16, 5: 32, 6: 96}[d]
        for ch in spaces.chunks(cfgs, n):
            sh.append(dict(stratum=f'default bases: all signature orderings x start index, d<={maxd}', cfgs=ch,
                           triples='all' if d <= (3 if tier == 'quick' else 4) else 'gens', mvprod=d <= 2, spell=d <= 4))
    for d in range(0, maxd + 1):
        cfgs = [spaces.cfg_pqr(*t) for t in spaces.pqr(d)]
        sh.append(dict(stratum='default constructions Algebra(p,q,r) incl. multivector products of all blade pairs (d<=3)',
                       cfgs=cfgs, triples='none', mvprod=d <= 3, spell=False))
    # custom bases
    if tier == 'quick':
        plan = [(1, 'all', None), (2, 'all', None), (3, 1, None)]
    else:
        plan = [(1, 'all', None), (2, 'all', None), (3, 'all', None), (4, 2, 9), (5, 1, 5)]
    for d, dev, nsig in plan:
        bases = spaces.all_bases(d) if dev == 'all' else spaces.bases_by_deviation(d, dev)
        sigs = spaces.sig(d)
        if nsig:
            step = max(1, len(sigs) // nsig)
            sigs = sigs[::step]
        cfgs = [spaces.cfg_sig(s, basis=b) for b in bases for s in sigs]
        if d <= 2:
            # custom bases whose generator labels start at 0 or 2 (the start index is derived from the basis)
            cfgs += [spaces.cfg_sig(s, basis=b) for st in (0, 2) for b in spaces.all_bases(d, start=st) for s in sigs]
        elif d == 3:
            cfgs += [spaces.cfg_sig(s, basis=b) for st in (0, 2) for b in spaces.bases_by_deviation(3, 1, start=st) for s in sigs[::3]]
        n = max(1, min(64, len(cfgs) // 150))
        for ch in spaces.chunks(cfgs, n):
            sh.append(dict(stratum='custom bases (all for d<=3 in thorough; bounded deviation above) x signatures',
                           cfgs=ch, triples='all' if d <= 3 else 'gens', mvprod=d <= 2, spell=d <= 3))
    # algebras derived from another algebra with dataclasses.replace (new signature, or new basis): the copy must obey
    # its own configuration. The copy keeps the basis (hence the labels) of its source unless the basis is replaced.
    derived = []
    for d in (1, 2, 3):
        sigs = spaces.sig(d)
        srcs = sigs if d <= 2 else sigs[::4]
        for s1 in srcs:
            for st in ((None, 0) if d <= 2 else (None,)):
                src = spaces.cfg_sig(s1, start_index=st)
                start = ref_from_config(src).start
                for s2 in (sigs if d <= 2 or tier == 'thorough' else sigs[1::3]):
                    if s2 != s1:
                        derived.append({'signature': s2, 'basis': spaces.default_basis(d, start), 'derived_from': src,
                                        'replace': {'signature': s2}})
                if d >= 2:
                    for b in (spaces.all_bases(d, start=start) if d == 2 else spaces.bases_by_deviation(d, 1, start=start)):
                        if b != spaces.default_basis(d, start):
                            derived.append({'signature': s1, 'basis': b, 'derived_from': src, 'replace': {'basis': b}})
    for ch in spaces.chunks(derived, 8):
        sh.append(dict(stratum='algebras derived with dataclasses.replace(signature=..) / (basis=..) from every source signature (d<=3)',
                       cfgs=ch, triples='gens', mvprod=False, spell=False))
    sh.append(dict(stratum='named algebras 2DPGA, 3DPGA, STAP', cfgs=[{**c, 'named': n} for n, c in spaces.NAMED.items()],
                   triples='gens', mvprod=False, spell=False))
    # lazy tables d >= 7
    lazy = [spaces.cfg_pqr(*t) for t in spaces.pqr(7)]
    if tier == 'thorough':
        lazy += [spaces.cfg_pqr(*t) for t in spaces.pqr(8)]
        for i in range(7):
            for v in (-1, 0):
                s = [1] * 7
                s[i] = v
                lazy.append(spaces.cfg_sig(s))
    # lazily filled tables of custom bases: generator order differs from label order, blades respelled
    base7 = spaces.default_basis(7, 1)

    def swapgen(b, i, j):
        nb = b[:]
        nb[1 + i], nb[1 + j] = nb[1 + j], nb[1 + i]
        return nb
    rot = ['e'] + base7[7:8] + base7[1:7] + base7[8:]
    resp = [{'e12': 'e21', 'e1234567': 'e2134567', 'e357': 'e753'}.get(n, n) for n in base7]
    custom7 = [swapgen(base7, 0, 6), rot, resp, swapgen(base7, 2, 3)]
    if tier == 'thorough':
        custom7 += [swapgen(base7, i, j) for i in range(7) for j in range(i + 1, 7) if (i, j) not in ((0, 6), (2, 3))]
    for b in custom7:
        for s in ([1, 1, 1, -1, 0, 1, -1], [0, -1, 1, 1, -1, 1, 1]):
            sh.append(dict(stratum='lazily filled tables of custom bases (d=7): generator order / spelling deviations, two fill orders',
                           cfgs=[spaces.cfg_sig(s, basis=b)], lazy=True, full=False))
    for cfg in lazy:
        sh.append(dict(stratum='lazily filled tables (d=7,8), two fill orders', cfgs=[cfg], lazy=True,
                       full=(tier == 'thorough' and len(cfg.get('signature', [0] * (cfg.get('p', 0) + cfg.get('q', 0) + cfg.get('r', 0)))) == 7)))
    return sh


def expected_sign(ref, alg, na, nb, I, J):
    sa, A = ref.name_to_blade(na)
    sb, B = ref.name_to_blade(nb)
    t, W = ref.bmul(A, B)
    sc, C = ref.name_to_blade(alg.bin2canon[I ^ J])
    return sa * sb * t * sc, W, C


def check_alg(cfg, shard, res, tables):
    try:
        if cfg.get('named'):
            from kingdon import Algebra
            alg = Algebra.fromname(cfg['named'])
            if list(alg.basis) != list(cfg['basis']):
                res.violate(violation('fromname-basis', f"fromname({cfg['named']}) basis differs from the documented list",
                                      {'shard': {**shard, 'cfgs': [cfg]}}, cfg['basis'], alg.basis))
        elif cfg.get('derived_from'):
            # multi-step construction: an existing algebra is copied with dataclasses.replace and a new signature / basis
            import dataclasses
            alg = dataclasses.replace(make_algebra(cfg['derived_from']), **cfg['replace'])
        else:
            alg = make_algebra(cfg)
    except Exception as e:
        res.evals += 1
        res.violate(violation('construct', f'{cfg_name(cfg)} cannot be constructed: {type(e).__name__}: {e}',
                              {'shard': {**shard, 'cfgs': [cfg]}}, 'an algebra', repr(e), f'from kingdon import Algebra\n{cfg_repro(cfg)}'))
        return
    ref = ref_from_config(cfg)
    name = cfg_name(cfg)
    case = {'shard': {**shard, 'cfgs': [cfg]}}
    repro = f'from kingdon import Algebra\nalg = {cfg_repro(cfg)}\n'
    if cfg.get('derived_from'):
        name = f"replace({cfg_name(cfg['derived_from'])}, {','.join(cfg['replace'])}) -> {name}"
        repro = (f"from dataclasses import replace\nfrom kingdon import Algebra\n"
                 f"alg = replace({cfg_repro(cfg['derived_from'])}, **{cfg['replace']!r})\n")
    c2b = alg.canon2bin
    names = list(c2b)
    d = alg.d

    def bad(key, what, exp, got, extra=''):
        res.violate(violation(key, f'{name}: {what}', case, exp, got, repro + extra))

    # structural sanity of the key <-> name maps
    res.evals += 1
    if sorted(c2b.values()) != list(range(2 ** d)) or any(alg.bin2canon[b] != n for n, b in c2b.items()):
        bad('maps', 'canon2bin/bin2canon are not inverse bijections onto range(2^d)', '', str(c2b))
        return
    if 'e' not in c2b or c2b['e'] != 0:
        bad('maps', 'identity blade e is not key 0', 0, c2b.get('e'))
        return
    gens = [n for n in names if len(n) == 2]
    # (1) generator squares = signature entry addressed by label; generators anticommute
    for g in gens:
        res.evals += 1
        G = c2b[g]
        want = ref.metric[int(g[1:], 16) - ref.start]
        if alg.signs[G, G] != want:
            bad('square', f'{g}*{g} has sign {alg.signs[G, G]}', want, alg.signs[G, G], f"print(alg.blades['{g}']*alg.blades['{g}'])")
    for g, h in permutations(gens, 2):
        res.evals += 1
        G, H = c2b[g], c2b[h]
        if alg.signs[G, H] != -alg.signs[H, G] or alg.signs[G, H] == 0:
            bad('anticommute', f'{g}{h} vs {h}{g}', 'opposite non-zero signs', (alg.signs[G, H], alg.signs[H, G]))
    # (2) every named blade is the left fold of its generators, identity blade is neutral
    for n, I in c2b.items():
        res.evals += 1
        cur, s = 0, 1
        for ch in n[1:]:
            g = c2b.get('e' + ch)
            if g is None:
                s = None
                break
            s *= alg.signs[cur, g]
            cur ^= g
        if s != 1 or cur != I:
            bad('fold', f'blade {n} is not the ordered product of its generators', (I, 1), (cur, s))
        if alg.signs[0, I] != 1 or alg.signs[I, 0] != 1:
            bad('identity', f'identity blade times {n}', 1, (alg.signs[0, I], alg.signs[I, 0]))
    # (3) all ordered pairs against the word oracle, cayley rendering
    cay = alg.cayley
    sha = hashlib.sha1()
    for na, I in c2b.items():
        for nb, J in c2b.items():
            res.evals += 1
            want, W, C = expected_sign(ref, alg, na, nb, I, J)
            got = alg.signs[I, J]
            sha.update(b'%d' % (got + 1))
            if want:
                res.nontrivial += 1
            if got != want or set(W) != set(C):
                bad('pair', f'{na}*{nb} = {got}*{alg.bin2canon[I ^ J]}', f'{want}*{alg.bin2canon[I ^ J]}', got,
                    f"print(alg.blades['{na}']*alg.blades['{nb}'])")
            rend = '0' if not got else ('-' if got == -1 else '') + alg.bin2canon[I ^ J]
            if cay.get((na, nb)) != rend:
                bad('cayley', f'cayley[{na},{nb}] does not render the table entry', rend, cay.get((na, nb)))
    tables.add(sha.hexdigest())
    if len(cay) != len(names) ** 2:
        bad('cayley', 'cayley table has wrong size', len(names) ** 2, len(cay))
    # (4) associativity on the table
    mode = shard.get('triples', 'none')
    if mode != 'none':
        keys = list(c2b.values())
        if mode == 'gens':
            g = [c2b[x] for x in gens]
            sub = sorted(set(g) | {a ^ b for a in g for b in g})
        else:
            sub = keys
        S = alg.signs
        for a, b, c in product(sub, repeat=3):
            res.evals += 1
            l = S[a, b] * S[a ^ b, c]
            r = S[b, c] * S[a, b ^ c]
            if l and r:
                res.nontrivial += 1
            if l != r:
                bad('assoc', f'({alg.bin2canon[a]}*{alg.bin2canon[b]})*{alg.bin2canon[c]} != '
                    f'{alg.bin2canon[a]}*({alg.bin2canon[b]}*{alg.bin2canon[c]})', r, l)
                break
    # (5) multivector products of blades and BladeDict access with non canonical spellings
    if shard.get('mvprod'):
        for na, I in c2b.items():
            for nb, J in c2b.items():
                res.evals += 1
                got, _ = mvdict(alg.blades[na] * alg.blades[nb])
                s = alg.signs[I, J]
                want = {I ^ J: s} if s else {}
                if {k: v for k, v in got.items() if v != 0} != want:
                    bad('mvprod', f'alg.blades[{na}]*alg.blades[{nb}]', want, got, f"print(alg.blades['{na}']*alg.blades['{nb}'])")
    if shard.get('spell'):
        for n, I in c2b.items():
            if len(n) < 3:
                continue
            for perm in permutations(n[1:]):
                res.evals += 1
                sp = 'e' + ''.join(perm)
                idx = [n[1:].index(ch) for ch in perm]
                par, _ = sort_word(idx)
                try:
                    got, _ = mvdict(alg.blades[sp])
                except Exception as e:
                    bad('spelling', f'alg.blades[{sp!r}] raises {type(e).__name__}', {I: par}, repr(e))
                    continue
                if got != {I: par}:
                    bad('spelling', f'alg.blades[{sp!r}] should be {par}*{n}', {I: par}, got, f"print(alg.blades['{sp}'])")
    if len(res.samples) < 2 and d >= 2:
        res.sample({'config': name, 'pairs': len(names) ** 2, 'example': f"{names[-1]}*{names[-1]} -> {cay[names[-1], names[-1]]}"})
    res.count('algebras')


def make_from_buffer(cfg):
    """The signature is handed over as an ndarray which the caller overwrites afterwards (e.g. enumerating signatures in
    one buffer): the algebra must not keep a view of it."""
    import numpy as np
    from kingdon import Algebra
    ref = ref_from_config(cfg)
    buf = np.array(ref.metric)
    kw = {}
    if cfg.get('start_index') is not None:
        kw['start_index'] = cfg['start_index']
    alg = Algebra(signature=buf, **kw)
    buf[:] = [{1: -1, -1: 0, 0: 1}[int(v)] for v in buf]
    return alg


def check_lazy(cfg, shard, res, tables):
    """d >= 7: the sign table is filled on demand; explore a structured pair set completely, in two fill orders."""
    ref = ref_from_config(cfg)
    name = cfg_name(cfg)
    case = {'shard': {**shard, 'cfgs': [cfg]}}
    a1 = make_algebra(cfg)
    # the second object is built from a caller-owned ndarray that is overwritten after construction
    a2 = make_from_buffer(cfg) if (not cfg.get('basis') and (cfg.get('signature') is not None or cfg.get('r', 0) != 1 or True)) and _default_start(cfg) else make_algebra(cfg)
    d = a1.d
    if shard.get('full'):
        keys = list(range(2 ** d))
        pairs = [(i, j) for i in keys for j in keys]
    else:
        g = [2 ** i for i in range(d)]
        sub = sorted({0, 2 ** d - 1} | set(g) | {a ^ b for a in g for b in g} | {a ^ b ^ c for a in g for b in g for c in g})
        pairs = [(i, j) for i in sub for j in sub]
    # the reported Cayley table of a lazily filled algebra (asked for before anything was multiplied on this object)
    a3 = make_algebra(cfg)
    res.evals += 1
    try:
        cay = a3.cayley
        names3 = list(a3.canon2bin)
        if len(cay) != len(names3) ** 2:
            res.violate(violation('lazy-cayley:size', f'{name}: the Cayley table has {len(cay)} entries instead of {len(names3) ** 2}', case, len(names3) ** 2, len(cay)))
        else:
            for na in names3[::7]:
                for nb in names3[::5]:
                    I, J = a3.canon2bin[na], a3.canon2bin[nb]
                    want, _, _ = expected_sign(ref, a3, na, nb, I, J)
                    rend = '0' if not want else ('-' if want == -1 else '') + a3.bin2canon[I ^ J]
                    if cay.get((na, nb)) != rend:
                        res.violate(violation('lazy-cayley:entry', f'{name}: cayley[{na},{nb}] = {cay.get((na, nb))}', case, rend, cay.get((na, nb))))
                        break
    except Exception as e:
        res.violate(violation('lazy-cayley:raises', f'{name}: cayley raises {type(e).__name__}: {e}', case, 'a table', repr(e)))
    sha = hashlib.sha1()
    vals = {}
    for (i, j) in pairs:
        res.evals += 1
        got = a1.signs[i, j]
        want, W, C = expected_sign(ref, a1, a1.bin2canon[i], a1.bin2canon[j], i, j)
        vals[i, j] = got
        sha.update(b'%d' % (got + 1))
        if want:
            res.nontrivial += 1
        if got != want:
            res.violate(violation('lazy-pair', f'{name}: {a1.bin2canon[i]}*{a1.bin2canon[j]} sign {got}', case, want, got,
                                  f"from kingdon import Algebra\nalg = {cfg_repro(cfg)}\nprint(alg.signs[{i},{j}])"))
    for (i, j) in reversed(pairs):          # other fill order on a second object
        res.evals += 1
        if a2.signs[i, j] != vals[i, j]:
            res.violate(violation('lazy-order', f'{name}: sign of ({i},{j}) depends on the fill order', case, vals[i, j], a2.signs[i, j]))
    # Clifford relations on the lazily filled table
    g = [2 ** i for i in range(d)]
    for i, G in enumerate(g):
        res.evals += 1
        lab = int(a1.bin2canon[G][1:], 16) - ref.start
        if a1.signs[G, G] != ref.metric[lab]:
            res.violate(violation('lazy-square', f'{name}: generator {a1.bin2canon[G]} squares to {a1.signs[G, G]}', case, ref.metric[lab], a1.signs[G, G]))
    sub = g + [g[0] ^ g[1], g[1] ^ g[-1], g[0] ^ g[3] ^ g[-1], 2 ** d - 1]
    S = a1.signs
    for a, b, c in product(sub, repeat=3):
        res.evals += 1
        if S[a, b] * S[a ^ b, c] != S[b, c] * S[a, b ^ c]:
            res.violate(violation('lazy-assoc', f'{name}: associativity fails on keys {a},{b},{c}', case, S[b, c] * S[a, b ^ c], S[a, b] * S[a ^ b, c]))
    # blades of a lazy algebra multiply consistently with the table
    for na, nb in [('e1', 'e2'), ('e12', 'e12'), ('e' + ''.join(format(x + ref.start, 'x') for x in range(d)),) * 2]:
        if na in a1.canon2bin and nb in a1.canon2bin:
            res.evals += 1
            I, J = a1.canon2bin[na], a1.canon2bin[nb]
            got, _ = mvdict(a1.blades[na] * a1.blades[nb])
            s = a1.signs[I, J]
            if {k: v for k, v in got.items() if v} != ({I ^ J: s} if s else {}):
                res.violate(violation('lazy-mvprod', f'{name}: blades[{na}]*blades[{nb}]', case, {I ^ J: s}, got))
    # blades of a lazy algebra that are first asked for through a non-canonical spelling: the spelling asked for gets the
    # permutation sign, the canonical name (asked afterwards, and again) is the blade itself
    a4 = make_algebra(cfg)
    names4 = list(a4.canon2bin)
    for nm in [n for n in names4 if len(n) == 3][:2] + [n for n in names4 if len(n) == 4][:2]:
        res.evals += 1
        odd = nm[0] + nm[2] + nm[1] + nm[3:]
        I = a4.canon2bin[nm]
        try:
            first, _ = mvdict(a4.blades[odd])
            canon1, _ = mvdict(a4.blades[nm])
            again, _ = mvdict(a4.blades[odd])
            canon2, _ = mvdict(a4.blades[nm])
            if first != {I: -1} or canon1 != {I: 1} or again != {I: -1} or canon2 != {I: 1}:
                res.violate(violation('lazy-blades:spelling-first', f'{name}: blades[{odd}] asked first, then blades[{nm}]: got {first}, {canon1}, {again}, {canon2}', case,
                                      f'{{{I}: -1}}, {{{I}: 1}}, {{{I}: -1}}, {{{I}: 1}}', f'{first}, {canon1}, {again}, {canon2}',
                                      f"from kingdon import Algebra\nalg = {cfg_repro(cfg)}\nprint(alg.blades['{odd}'], alg.blades['{nm}'])"))
        except Exception as e:
            res.violate(violation('lazy-blades:raises', f'{name}: blades[{odd}] / blades[{nm}] raises {type(e).__name__}: {e}', case, 'blades', repr(e)))
    tables.add(sha.hexdigest())
    res.count('algebras')
    res.count('lazy_algebras')
    res.sample({'config': name, 'lazy_pairs': len(pairs), 'fill_orders': 2})


def _default_start(cfg):
    """make_from_buffer passes an explicit signature; that is the same algebra only if the start index is given or default."""
    if cfg.get('start_index') is not None:
        return True
    ref = ref_from_config(cfg)
    r = sum(1 for m in ref.metric if m == 0)
    return ref.start == (0 if r == 1 else 1)


def run_shard(shard):
    res = Result()
    tables = set()
    for cfg in shard['cfgs']:
        if shard.get('lazy'):
            check_lazy(cfg, shard, res, tables)
        else:
            check_alg(cfg, shard, res, tables)
    res.count('distinct_tables_in_shard_sum', len(tables))
    return res.asdict()
