"""C02  Geometric product of sparse multivectors equals the bilinear extension.

Programs  = ordered pairs of key tuples (each pair -> one generated function), enumerated completely per stratum.
Values    = the generic point (distinct indeterminates of the free commutative ring P) -> decides all values at once;
            plus an exhaustive integer grid through the public a*b (numeric glue path).
Oracle    = coefficient of blade K is the sum over stored pairs (i,j) with i^j == K of signs[i,j]*a_i*b_j, the sign
            taken from the algebra's own blade table (that table is tied to the Clifford relations by C01).
"""
from itertools import product

from .. import spaces, binprog
from ..common import Result, gmv, nmv, mvdict, eq_elem, show, cfg_name, cfg_repro
from ..harness import violation
from ..oracle import make_algebra
from ..ring import P, Trap, iszero

PID = 'C02'
LEVEL = 'exploration'
RULE = ('cases = (algebra configuration, ordered key tuple of a, ordered key tuple of b[, integer grid point]); '
        'enumerated completely per stratum, simplest first; every case runs the real generated function on the '
        'generic point. distinct = distinct (configuration, key tuple pair) - each is a different generated '
        'function; non-trivial = the reference product has at least one non-zero coefficient.')
ASSUMPTIONS = ['the blade table alg.signs is the one C01 checks against the Clifford relations',
               'generated functions are straight-line over + - * (any value-dependent branch raises Trap and is reported)']
BOUNDS = {
    'quick': 'd<=2: all 3^d signature orderings x T(d) x T(d) complete; d=3: pqr(3) x tuples of <=2 blades in any order; '
             'integer grid {-1,0,1,2}^k, k<=4, d<=2; d=4 single blades; d=7 (lazy table) sparse tuples <=3 blades',
    'thorough': 'quick + d=3: S(3)xS(3) complete for 4 pqr configurations, subsets <=3 blades for all 27 orderings, '
                'tuples <=3 blades x single blades; d=4 grade blocks, <=1-blade tuples, dense in 3 orders; d=5,6 grade '
                'blocks (diagonal and small blocks); d=7,8 lazy-table algebras: single blades and sparse 3-blade tuples',
}


def shards(tier, seed):
    mk = binprog.mk
    sh = binprog.product_shards(tier)
    # integer grid through the public operator
    for d in (1, 2):
        for s in spaces.sig(d):
            sh += mk('integer grid {-1,0,1,2}^k (k<=4) through a*b, d<=2', spaces.cfg_sig(s), ('T', 4), ('T', 4),
                     2 if d == 2 else 1, grid=True)
    s3 = 'd=3: pqr(3) x ordered tuples of <=2 blades x same'
    for p, q, r in spaces.pqr(3):
        sh += mk(s3, spaces.cfg_pqr(p, q, r), ('T', 2), ('T', 2), 4)
    if tier == 'quick':
        sh += mk('d=7 (lazy blade table): sparse tuples of <=3 blades', spaces.cfg_pqr(6, 0, 1), ('sparse3',), ('sparse3',), 4)
        # null generators that are not the first ones (two of them last; one in the middle of a mixed signature)
        sh += mk('d=7 (lazy blade table): sparse tuples of <=3 blades', spaces.cfg_pqr(5, 0, 2), ('sparse3',), ('sparse3',), 4)
        sh += mk('d=7 (lazy blade table): sparse tuples of <=3 blades', spaces.cfg_sig([1, 1, 1, 0, 1, -1, 1]), ('sparse3',), ('sparse3',), 4)
        sh += mk('d=4: <=1-blade tuples x same', spaces.cfg_pqr(3, 0, 1), ('B',), ('B',), 2)
    if tier == 'thorough':
        for p, q, r in [(3, 0, 0), (2, 0, 1), (1, 1, 1), (0, 3, 0)]:
            sh += mk('d=3: all 256x256 canonical subset pairs (4 pqr configurations)', spaces.cfg_pqr(p, q, r),
                     ('S', None), ('S', None), 32)
        for s in spaces.sig(3):
            sh += mk('d=3: all 27 signature orderings x canonical subsets of <=3 blades', spaces.cfg_sig(s),
                     ('S', 3), ('S', 3), 3)
        for p, q, r in spaces.pqr(3):
            sh += mk('d=3: ordered tuples of <=3 blades x single blades (both sides)', spaces.cfg_pqr(p, q, r),
                     ('T', 3), ('B',), 2)
            sh += mk('d=3: ordered tuples of <=3 blades x single blades (both sides)', spaces.cfg_pqr(p, q, r),
                     ('B',), ('T', 3), 1)
        for cfg in [spaces.cfg_pqr(*t) for t in spaces.pqr(4)] + [spaces.cfg_sig(s) for s in spaces.mixed_orderings(4)]:
            sh += mk('d=4: grade blocks x grade blocks', cfg, ('G',), ('G',), 4)
            sh += mk('d=4: <=1-blade tuples x same; dense in canonical/binary/reversed order', cfg, ('B',), ('B',), 1)
            sh += mk('d=4: <=1-blade tuples x same; dense in canonical/binary/reversed order', cfg, ('full',), ('full',), 1)
        for d in (5, 6):
            for t in [(d, 0, 0), (d - 1, 0, 1), (d - 2, 1, 1), (1, d - 1, 0)]:
                sh += mk('d=5,6: grade blocks (diagonal) and small grade blocks', spaces.cfg_pqr(*t), ('G',), ('G',), 4, diag=True)
                sh += mk('d=5,6: grade blocks (diagonal) and small grade blocks', spaces.cfg_pqr(*t), ('Gsmall',), ('Gsmall',), 2)
        for d in (7, 8):
            for t in [(d, 0, 0), (d - 1, 0, 1), (d - 2, 1, 1)]:
                sh += mk('d=7,8 (lazy blade table): sparse tuples of <=3 blades', spaces.cfg_pqr(*t), ('sparse3',), ('sparse3',), 2)
        sh += mk('d=7,8 (lazy blade table): sparse tuples of <=3 blades', spaces.cfg_pqr(5, 0, 2), ('sparse3',), ('sparse3',), 2)
        sh += mk('d=7,8 (lazy blade table): sparse tuples of <=3 blades', spaces.cfg_sig([1, 1, 1, 0, 1, -1, 1]), ('sparse3',), ('sparse3',), 2)
    # cross-algebra histories: all signature orderings of one dimension in ONE process, forward and backward
    for d in (1, 2):
        for order in (spaces.sig(d), list(reversed(spaces.sig(d)))):
            sh.append(dict(stratum='all signature orderings of d<=2 one after the other in one process (two orders), subsets <=2 blades',
                           seq=[binprog.mk('seq', spaces.cfg_sig(s), ('S', 2), ('S', 2), 1)[0] for s in order]))
    # the same signature with the default basis and with custom bases, one after the other in one process
    sh.append(dict(stratum='default basis and custom bases of one signature one after the other in one process',
                   seq=[binprog.mk('seq', c, ('S', 2), ('S', 2), 1)[0] for c in
                        [spaces.cfg_pqr(2, 0, 1), spaces.NAMED['2DPGA'], spaces.cfg_pqr(2, 0, 1)] +
                        [spaces.cfg_sig([1, -1], basis=b) for b in spaces.all_bases(2)] + [spaces.cfg_sig([1, -1])]]))
    # the metric given as floats (a numpy float array): exact coefficients must stay exact
    for sg in ([1.0, -1.0], [1.0, 1.0, 0.0], [-1.0, 1.0, 1.0]):
        sh += mk('float-valued signatures with 20-digit integer coefficients', {'signature': sg, 'float_signature': True}, ('S', 2), ('S', 2), 1, bigint=True)
    return sh


def expected(alg, ka, va, kb, vb):
    exp = {}
    for i, x in zip(ka, va):
        for j, y in zip(kb, vb):
            s = alg.signs[i, j]
            if s:
                t = x * y if s > 0 else -(x * y)
                K = i ^ j
                exp[K] = exp[K] + t if K in exp else t
    return exp


def check_pair(alg, cfg, ka, kb, res, stratum, grid=False):
    a = gmv(alg, ka, 'a')
    b = gmv(alg, kb, 'b')
    res.evals += 1
    case = {'shard': dict(stratum=stratum, cfg=cfg, left=['list', [list(ka)]], right=['list', [list(kb)]], chunk=(0, 1), grid=grid)}
    sigkey = f'gp:{len(ka)}x{len(kb)}'
    repro = (f"from kingdon import Algebra\nalg = {cfg_repro(cfg)}\n"
             f"a = alg.multivector(keys={tuple(ka)}, name='a'); b = alg.multivector(keys={tuple(kb)}, name='b')\nprint(a*b)")
    exp = None
    try:
        # the implementation runs first: the oracle reads alg.signs, which would fill a lazily built table (d > 6) for it
        got_mv = a * b
        got, dup = mvdict(got_mv)
        keys_out, func = alg.gp[tuple(ka), tuple(kb)]
        direct = dict(zip(keys_out, func(a.values(), b.values())))
    except Trap as e:
        res.violate(violation(sigkey + ':trap', f'gp {cfg_name(cfg)} keys {ka} x {kb}: {e}', case, 'value independent control flow', str(e), repro))
        return
    except Exception as e:
        res.violate(violation(sigkey + ':raises', f'gp {cfg_name(cfg)} keys {ka} x {kb} raises {type(e).__name__}: {e}', case, 'the bilinear extension', repr(e), repro))
        return
    exp = expected(alg, ka, a.values(), kb, b.values())
    nz = {k for k, v in exp.items() if not iszero(v)}
    if nz:
        res.nontrivial += 1
    bad = eq_elem(got, exp) or eq_elem(direct, exp)
    missing = sorted(nz - set(got))
    if dup or bad or missing or len(keys_out) != len(set(keys_out)):
        res.violate(violation(sigkey, f'gp {cfg_name(cfg)} keys {ka} x {kb}: wrong coefficient on blades {bad or missing}'
                              + (' (duplicate output key)' if dup else ''), case, show(exp), show(got), repro))
    if grid:
        k = len(ka) + len(kb)
        if 0 < k <= 4:
            for vals in product((-1, 0, 1, 2), repeat=k):
                va, vb = list(vals[:len(ka)]), list(vals[len(ka):])
                res.evals += 1
                e2 = expected(alg, ka, va, kb, vb)
                g2, dup2 = mvdict(nmv(alg, ka, va) * nmv(alg, kb, vb))
                if eq_elem(g2, e2) or dup2:
                    res.violate(violation(sigkey + ':ints', f'gp {cfg_name(cfg)} keys {ka} x {kb} values {va} x {vb}',
                                          case, show(e2), show(g2), repro))
                    break
    if len(res.samples) < 2 and len(ka) >= 2 and len(kb) >= 2 and nz:
        res.sample({'config': cfg_name(cfg), 'keys_a': list(ka), 'keys_b': list(kb), 'reference': show(exp)})


def check_bigint(alg, cfg, ka, kb, res, stratum):
    big = 10 ** 20
    va = [big + 3 * i + 1 for i in range(len(ka))]
    vb = [-big + 7 * i + 2 for i in range(len(kb))]
    res.evals += 1
    exp = {}
    for i, x in zip(ka, va):
        for j, y in zip(kb, vb):
            s = int(alg.signs[i, j])
            if s:
                exp[i ^ j] = exp.get(i ^ j, 0) + s * x * y
    case = {'shard': dict(stratum=stratum, cfg=cfg, left=['list', [list(ka)]], right=['list', [list(kb)]], chunk=(0, 1), bigint=True)}
    try:
        got, dup = mvdict(nmv(alg, ka, va) * nmv(alg, kb, vb))
    except Exception as e:
        res.violate(violation('gp:float-signature:raises', f'gp {cfg_name(cfg)} keys {ka} x {kb} with 20-digit integers raises {type(e).__name__}: {e}', case, show(exp), repr(e)))
        return
    if any(got.get(k, 0) != exp.get(k, 0) for k in set(got) | set(exp)):
        res.violate(violation('gp:float-signature:inexact', f'gp {cfg_name(cfg)} (metric given as floats) keys {ka} x {kb}: exact 20-digit integer coefficients come back inexact',
                              case, show(exp), show(got)))


def run_shard(shard):
    if 'seq' in shard:
        from ..common import run_sequence
        return run_sequence(run_shard, shard)
    res = Result()
    cfg = shard['cfg']
    if cfg.get('float_signature'):
        import numpy as np
        from kingdon import Algebra
        alg = Algebra(signature=np.array(cfg['signature'], dtype=float))
        for ka, kb in binprog.pairs(shard, alg):
            check_bigint(alg, cfg, ka, kb, res, shard['stratum'])
            check_pair(alg, cfg, ka, kb, res, shard['stratum'])
        return res.asdict()
    alg = make_algebra(cfg)
    for ka, kb in binprog.pairs(shard, alg):
        check_pair(alg, cfg, ka, kb, res, shard['stratum'], grid=shard.get('grid', False))
    return res.asdict()
