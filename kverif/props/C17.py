"""C17  The built-in polynomial arithmetic is exact rational-function arithmetic.

Explicit-state BFS over the *values* reachable from a set of atoms through the public operators of
kingdon.polynomial.Polynomial / RationalPolynomial.  State = structural form of the object (two structurally equal
objects have equal futures: the operators are pure functions of `args`).  Invariant on every transition: the
denotation (an element of the fraction field R) of the result equals the operation applied to the denotations.
"""
import copy
from fractions import Fraction

from ..common import Result
from ..harness import violation, merge
from ..ring import P, R
from ..spaces import chunks

PID = 'C17'
LEVEL = 'model_checking'
RULE = ('state = structural form (class, args) of a Polynomial / RationalPolynomial value; transitions = + - * / with both operand orders and scalar '
        'operands, neg, pos, inv, ** n (n in -3..4, n != 0; negative only for rational polynomials); BFS by levels from the atoms; invariant on every '
        'transition: denotation homomorphism into the fraction field (exact), == 0 / bool agree with the reference zero test, results are well formed and '
        'usable (str, tosympy); on every distinct state: tosympy() denotes the same function; on state pairs: u == v implies equal denotation.')
ASSUMPTIONS = ['operands of one operation are of the same class or plain numbers (mixing Polynomial with RationalPolynomial is not a public use)',
               'x ** 0 raises KeyError in both classes and Polynomial has no negative powers: not judged (an exception is not a wrong denotation)',
               'scalar divisors are powers of two so that float coefficients stay exact; divisor 3 is compared with tolerance']
BOUNDS = {'quick': 'level 2 complete (atoms op atoms, all operators), level 3 = (level<=2) op (atoms) for + - * /; u+v and u-v for all pairs of level<=2 states of one class (400 / 250 states); == on all pairs of level<=2 states (capped 1500 states)',
          'thorough': 'level 3 complete incl. unary and powers, level 4 = (level 3 sample-free: every level-3 state) op (4 atoms) for rational polynomials up to the state cap 60000'}

CONSTS = [0, 1, -1, 2, 3, 0.5, 2.0]
SCALARS = [0, 1, -1, 2, 0.5, 4]


# ---------------------------------------------------------------------------------------------- structure
def form(o):
    from kingdon.polynomial import Polynomial, RationalPolynomial
    if isinstance(o, RationalPolynomial):
        n, d = o.numer, o.denom
        return ('RP', form(n) if isinstance(n, Polynomial) else ('raw', repr(n)), form(d) if isinstance(d, Polynomial) else ('raw', repr(d)))
    if isinstance(o, Polynomial):
        a = getattr(o, 'args', 'MISSING')
        if not isinstance(a, (list, tuple)):
            return ('P', ('raw', repr(a)))
        return ('P', tuple(tuple(m) if isinstance(m, (list, tuple)) else ('raw', repr(m)) for m in a))
    return ('raw', repr(o))


def build(f):
    from kingdon.polynomial import Polynomial, RationalPolynomial
    if f[0] == 'P':
        return Polynomial([list(m) for m in f[1]])
    if f[0] == 'RP':
        return RationalPolynomial(build(f[1]), build(f[2]))
    raise ValueError(f)


def wellformed(f):
    if f[0] == 'P':
        if not isinstance(f[1], tuple) or (f[1] and f[1][0] == 'raw'):
            return False
        for m in f[1]:
            if not isinstance(m, tuple) or not m or m[0] == 'raw' or isinstance(m[0], str) or not all(isinstance(v, str) for v in m[1:]):
                return False
        return True
    if f[0] == 'RP':
        return f[1][0] == 'P' and f[2][0] == 'P' and wellformed(f[1]) and wellformed(f[2])
    return False


def den_poly(f):
    tot = P()
    for m in f[1]:
        t = P.const(Fraction(m[0]))
        for v in m[1:]:
            t = t * P.var(v)
        tot = tot + t
    return tot


def den(f):
    """Denotation in the fraction field, or None if the denominator denotes zero."""
    if f[0] == 'P':
        return R(den_poly(f))
    n, d = den_poly(f[1]), den_poly(f[2])
    if d.iszero():
        return None
    return R(n, d)


def atoms():
    from kingdon.polynomial import Polynomial, RationalPolynomial
    A = [Polynomial.fromname(v) for v in 'xyz'] + [Polynomial(c) for c in CONSTS] + [Polynomial('x'), Polynomial('-y'),
         Polynomial([[2, 'x'], [3, 'y']]), Polynomial([[1, 'x', 'x'], [-1, 'y']]), Polynomial([]),
         # non-homogeneous: one monomial is a prefix of another (x < x*y in the monomial order, but x*z > x*y*z)
         Polynomial([[1, 'x'], [1, 'x', 'y']]), Polynomial([[3], [1, 'y'], [-2, 'y', 'z']]),
         # single terms in two distinct variables
         Polynomial([[2, 'x', 'y']]), Polynomial([[-1, 'x', 'z', 'z']])]
    B = [RationalPolynomial.fromname(v) for v in 'xyz'] + [RationalPolynomial([[c]]) for c in CONSTS] + \
        [RationalPolynomial([[1, 'x']], [[1, 'y']]), RationalPolynomial([]), RationalPolynomial([[1, 'x'], [1, 'y']], [[2, 'z']]),
         RationalPolynomial(Polynomial([[1, 'x'], [-1, 'y']])), RationalPolynomial([[1, 'x'], [1, 'x', 'y']]), RationalPolynomial([[1, 'y']], [[3]]),
         RationalPolynomial([[3, 'x', 'z']], [[1, 'y']]), RationalPolynomial([[2, 'x', 'y']])]
    out = []
    for o in A + B:
        f = form(o)
        if f not in out:
            out.append(f)
    return out


# ---------------------------------------------------------------------------------------------- transitions
def binary_ops(cls):
    ops = [('add', lambda a, b: a + b, lambda x, y: x + y), ('sub', lambda a, b: a - b, lambda x, y: x - y),
           ('mul', lambda a, b: a * b, lambda x, y: x * y), ('div', lambda a, b: a / b, lambda x, y: x / y)]
    return ops


def scalar_ops(cls):
    ops = [('add_s', lambda a, s: a + s, lambda x, s: x + s), ('radd_s', lambda a, s: s + a, lambda x, s: s + x),
           ('sub_s', lambda a, s: a - s, lambda x, s: x - s), ('rsub_s', lambda a, s: s - a, lambda x, s: s - x),
           ('mul_s', lambda a, s: a * s, lambda x, s: x * s), ('rmul_s', lambda a, s: s * a, lambda x, s: s * x),
           ('div_s', lambda a, s: a / s, lambda x, s: x / s)]
    if cls == 'RP':
        ops.append(('rdiv_s', lambda a, s: s / a, lambda x, s: s / x))
    return ops


def unary_ops(cls):
    ops = [('neg', lambda a: -a, lambda x: -x), ('pos', lambda a: +a, lambda x: x)]
    for n in (1, 2, 3, 4):
        ops.append((f'pow{n}', (lambda n: lambda a: a ** n)(n), (lambda n: lambda x: x ** n)(n)))
    if cls == 'RP':
        ops.append(('inv', lambda a: a.inv(), lambda x: 1 / x))
        for n in (-1, -2, -3):
            ops.append((f'pow{n}', (lambda n: lambda a: a ** n)(n), (lambda n: lambda x: x ** n)(n)))
    return ops


def check_result(res, opname, operands, out, want, case):
    """out: kingdon result object (or plain number); want: R or None (reference undefined)."""
    from kingdon.polynomial import Polynomial, RationalPolynomial
    if not isinstance(out, (Polynomial, RationalPolynomial)):
        # plain number results are allowed (e.g. inv of zero returns 0): treat as constant
        try:
            got = R.lift(out)
        except Exception:
            got = NotImplemented
        if got is NotImplemented:
            res.violate(violation(f'{opname}:non-polynomial-result', f'{opname}{operands} returns {out!r}', case, str(want), repr(out)))
            return None
        if want is not None and not got.same(want):
            res.violate(violation(f'{opname}:value', f'{opname}{operands} returns {out!r}', case, str(want), repr(out)))
        return None
    f = form(out)
    if not wellformed(f):
        res.violate(violation(f'{opname}:malformed', f'{opname}{operands} returns a malformed object {f}', case, 'Polynomial args / Polynomial numerator and denominator', str(f)[:300]))
        return None
    got = den(f)
    if want is None:
        return f
    if got is None:
        res.violate(violation(f'{opname}:zero-denominator', f'{opname}{operands} has a zero denominator although the result is defined', case, str(want), str(f)[:300]))
        return None
    if not got.same(want):
        res.violate(violation(f'{opname}:value', f'{opname}{operands} denotes a different function', case, str(want), str(got)))
        return None
    # zero tests
    z = want.iszero()
    try:
        e0, b = (out == 0), bool(out)
        if e0 != z or b != (not z):
            res.violate(violation(f'{opname}:zero-test', f'result of {opname}{operands}: == 0 gives {e0}, bool gives {b}, reference zero: {z}', case, z, (e0, b)))
        str(out)
    except Exception as e:
        res.violate(violation(f'{opname}:unusable', f'result of {opname}{operands} cannot be tested/printed: {type(e).__name__}: {e}', case, 'usable', repr(e)))
        return None
    return f


def expand(task):
    """task = (list of left forms, list of right forms, mode).  Returns result dict + list of new forms."""
    lefts, rights, mode = task
    res = Result()
    new = []
    seen = set()

    def emit(f):
        if f is not None and f not in seen:
            seen.add(f)
            new.append(f)
    for lf in lefts:
        cls = lf[0]
        dl = den(lf)
        if dl is None:
            continue
        if mode in ('all', 'unary'):
            for name, op, rop in unary_ops(cls):
                res.transitions += 1
                case = {'op': name, 'left': lf}
                try:
                    want = rop(dl)
                except ZeroDivisionError:
                    want = None
                try:
                    out = op(build(lf))
                except ZeroDivisionError:
                    if want is not None:
                        res.violate(violation(f'{name}:spurious-zerodivision', f'{name}({lf}) raises ZeroDivisionError', case, str(want), 'ZeroDivisionError'))
                    continue
                except Exception as e:
                    if want is not None:
                        res.violate(violation(f'{name}:raises', f'{name}({lf}) raises {type(e).__name__}: {e}', case, str(want), repr(e)))
                    continue
                emit(check_result(res, name, (lf,), out, want, case))
            for name, op, rop in scalar_ops(cls):
                for s in SCALARS:
                    if name == 'div_s' and s == 0:
                        continue
                    res.transitions += 1
                    case = {'op': name, 'left': lf, 'scalar': s}
                    try:
                        want = rop(dl, Fraction(s))
                    except ZeroDivisionError:
                        want = None
                    try:
                        out = op(build(lf), s)
                    except ZeroDivisionError:
                        if want is not None:
                            res.violate(violation(f'{name}:spurious-zerodivision', f'{name}({lf}, {s})', case, str(want), 'ZeroDivisionError'))
                        continue
                    except Exception as e:
                        if want is not None:
                            res.violate(violation(f'{name}:raises', f'{name}({lf}, {s}) raises {type(e).__name__}: {e}', case, str(want), repr(e)))
                        continue
                    emit(check_result(res, name, (lf, s), out, want, case))
        for rf in rights:
            if rf[0] != cls:
                continue
            dr = den(rf)
            if dr is None:
                continue
            # augmented assignment on an accumulator obtained through the identity shortcuts (x*1, x+0, +x may return x itself):
            # the accumulated value is right and neither operand object changes
            for iname, start in (('iadd-after-mul1', lambda o: o * 1), ('iadd-after-add0', lambda o: o + 0), ('iadd-after-pos', lambda o: +o)):
                res.transitions += 1
                case = {'op': iname, 'left': lf, 'right': rf}
                try:
                    a_obj, b_obj = build(lf), build(rf)
                    acc = start(a_obj)
                    acc += b_obj
                    acc += b_obj
                    want = dl + dr + dr
                    f_acc = check_result(res, iname, (lf, rf), acc, want, case)
                    if form(a_obj) != lf or form(b_obj) != rf:
                        res.violate(violation(f'{iname}:operand-mutated', f'{iname}: after acc = start(a); acc += b the operand objects changed', case, str((lf, rf))[:300], str((form(a_obj), form(b_obj)))[:300]))
                except Exception as e:
                    res.violate(violation(f'{iname}:raises', f'{iname}({lf}, {rf}) raises {type(e).__name__}: {e}', case, '', repr(e)))
            for name, op, rop in binary_ops(cls):
                for a, b, da, db in ((lf, rf, dl, dr), (rf, lf, dr, dl)):
                    res.transitions += 1
                    case = {'op': name, 'left': a, 'right': b}
                    try:
                        want = rop(da, db)
                    except ZeroDivisionError:
                        want = None
                    if name == 'div' and cls == 'P' and want is not None:
                        pass
                    try:
                        out = op(build(a), build(b))
                    except ZeroDivisionError:
                        if want is not None:
                            res.violate(violation(f'{name}:spurious-zerodivision', f'{name}({a}, {b})', case, str(want), 'ZeroDivisionError'))
                        continue
                    except Exception as e:
                        if want is not None:
                            res.violate(violation(f'{name}:raises', f'{name}({a}, {b}) raises {type(e).__name__}: {e}', case, str(want), repr(e)))
                        continue
                    emit(check_result(res, name, (a, b), out, want, case))
    d = res.asdict()
    d['new'] = new
    return d


def big_atoms():
    """Exact integers that nearly cancel relative to their size (beyond 2**53: only combined with integer-coefficient states)."""
    from kingdon.polynomial import Polynomial, RationalPolynomial
    objs = [Polynomial([[10 ** 16 + 1, 'x']]), Polynomial([[10 ** 16, 'x']]), Polynomial([[10 ** 16 + 1, 'x', 'y'], [3, 'z']]), Polynomial([[10 ** 16, 'x', 'y']]),
            RationalPolynomial([[10 ** 16 + 1, 'x']]), RationalPolynomial([[10 ** 16, 'x']]), RationalPolynomial([[10 ** 16 + 1, 'x']], [[1, 'y']]), RationalPolynomial([[10 ** 16, 'x']], [[1, 'y']])]
    return [form(o) for o in objs]


def _coeffs(f):
    if f[0] == 'P':
        return [m[0] for m in f[1]]
    return _coeffs(f[1]) + _coeffs(f[2])


def integral(f):
    # python ints only: a float coefficient (even 1.0) turns a product with a 17-digit integer into a rounded float
    return all(isinstance(c, int) and not isinstance(c, bool) for c in _coeffs(f))


BIG = set()


def cancel_check(task):
    """Sums and differences of all pairs of already reached states: cancellation of like terms is what the exact zero tests
    (and therefore the simplification in code generation) rest on."""
    lefts, rights = task
    BIG.update(big_atoms())
    res = Result()
    dr = {f: den(f) for f in rights}
    objs = {f: build(f) for f in rights}
    for lf in lefts:
        dl = den(lf)
        if dl is None:
            continue
        a = build(lf)
        for rf in rights:
            if rf[0] != lf[0] or dr[rf] is None:
                continue
            if (lf in BIG or rf in BIG) and not (integral(lf) and integral(rf)):
                continue          # floats cannot be exact next to 17-digit integers
            for name, op, want in (('sub', lambda x, y: x - y, dl - dr[rf]), ('add', lambda x, y: x + y, dl + dr[rf])):
                res.transitions += 1
                case = {'op': name, 'left': lf, 'right': rf}
                try:
                    out = op(a, objs[rf])
                except Exception as e:
                    res.violate(violation(f'{name}:raises', f'{name}({lf}, {rf}) raises {type(e).__name__}: {e}', case, str(want), repr(e)))
                    continue
                check_result(res, name, (lf, rf), out, want, case)
    return res.asdict()


def samefn_check(groups):
    """Differently represented states that denote the same function: their difference must test as zero (whatever the
    internal form of either is), their sum must denote twice the function."""
    res = Result()
    for forms in groups:
        objs = [build(f) for f in forms]
        d0 = den(forms[0])
        for i in range(len(forms)):
            for j in range(len(forms)):
                if i == j:
                    continue
                for name, op, want in (('sub', lambda x, y: x - y, d0 - d0), ('add', lambda x, y: x + y, d0 + d0)):
                    res.transitions += 1
                    case = {'op': name, 'left': forms[i], 'right': forms[j]}
                    try:
                        out = op(objs[i], objs[j])
                    except Exception as e:
                        res.violate(violation(f'{name}:raises', f'{name}({forms[i]}, {forms[j]}) raises {type(e).__name__}: {e}', case, str(want), repr(e)))
                        continue
                    check_result(res, name + ':same-function', (forms[i], forms[j]), out, want, case)
    return res.asdict()


def sympy_check(forms):
    """tosympy() of every state denotes the same rational function."""
    import sympy
    res = Result()
    for f in forms:
        d = den(f)
        if d is None:
            continue
        res.evals += 1
        try:
            s = build(f).tosympy()
        except Exception as e:
            res.violate(violation('tosympy:raises', f'tosympy() of {f} raises {type(e).__name__}: {e}', {'form': f}, 'an expression', repr(e)))
            continue

        def tosym(p):
            tot = sympy.Integer(0)
            for m, c in p.t.items():
                term = sympy.Rational(c.numerator, c.denominator)
                for v, e in m:
                    term = term * sympy.Symbol(v) ** e
                tot = tot + term
            return tot
        want = tosym(d.n) / tosym(d.d)
        try:
            diff = sympy.nsimplify(sympy.cancel(sympy.together(s - want)), rational=True)
            ok = diff == 0 or sympy.simplify(diff) == 0
        except Exception:
            ok = False
        if not ok:
            res.violate(violation('tosympy:value', f'tosympy() of {f} is {s}', {'form': f}, str(want), str(s)))
    return res.asdict()


def eq_check(task):
    """u == v must imply equal denotation (and must not raise)."""
    lefts, allforms = task
    res = Result()
    dens = {}
    for f in allforms:
        dens[f] = den(f)
    objs = {f: build(f) for f in allforms}
    for lf in lefts:
        for rf in allforms:
            res.evals += 1
            try:
                e = objs[lf] == objs[rf]
            except Exception as ex:
                res.violate(violation('eq:raises', f'{lf} == {rf} raises {type(ex).__name__}', {'left': lf, 'right': rf}, 'bool', repr(ex)))
                continue
            if e and dens[lf] is not None and dens[rf] is not None and not dens[lf].same(dens[rf]):
                res.violate(violation('eq:equates-different-functions', f'{lf} == {rf} although they denote different functions', {'left': lf, 'right': rf}, False, True))
    return res.asdict()


def drive(ctx):
    tier = ctx.tier
    A = atoms()
    seen = {f: 0 for f in A}
    levels = {1: list(A)}
    agg = ctx.agg
    cap = 1500 if tier == 'quick' else 60000

    def run_level(lefts, rights, mode, lvl):
        tasks = [(ch, rights, mode) for ch in chunks(lefts, 64) if ch]
        newl = []
        for out in ctx.map('expand', tasks):
            for f in out.pop('new'):
                if f not in seen:
                    seen[f] = lvl
                    newl.append(f)
            merge(agg, out)
        return newl
    levels[2] = run_level(levels[1], levels[1], 'all', 2)
    l12 = levels[1] + levels[2]
    if tier == 'quick':
        levels[3] = run_level(levels[2], levels[1], 'binary', 3)
    else:
        levels[3] = run_level(levels[2], levels[1], 'all', 3)
        if ctx.time_left() > 300:
            four = [f for f in levels[1] if f[0] == 'RP'][:4] + [f for f in levels[1] if f[0] == 'P'][:3]
            l3 = levels[3][:cap]
            if len(levels[3]) > cap:
                ctx.capped.append(f'level 4 expands the first {cap} of {len(levels[3])} level-3 states')
            levels[4] = run_level(l3, four, 'binary', 4)
    # cancellation: u - v and u + v for all pairs of level <= 2 states of one class
    cp = [f for f in l12 if f[0] == 'P'][:(400 if tier == 'quick' else 1500)] + [f for f in big_atoms() if f[0] == 'P']
    cr = [f for f in l12 if f[0] == 'RP'][:(250 if tier == 'quick' else 700)] + [f for f in big_atoms() if f[0] == 'RP']
    for group in (cp, cr):
        for out in ctx.map('cancel_check', [(ch, group) for ch in chunks(group, 48) if ch]):
            agg['extra']['cancellation_pairs'] = agg['extra'].get('cancellation_pairs', 0) + out['transitions']
            merge(agg, out)
    # states of all levels that denote the same function through different representations
    pts = [{'x': Fraction(3, 7), 'y': Fraction(-5, 3), 'z': Fraction(11, 2)}, {'x': Fraction(-2, 5), 'y': Fraction(7, 4), 'z': Fraction(1, 3)}]
    byfn = {}
    for f in seen:
        if f in BIG or f in big_atoms():
            continue
        dd = den(f)
        if dd is None:
            continue
        try:
            key = (f[0],) + tuple(dd.evaluate(pt) for pt in pts)
        except ZeroDivisionError:
            continue
        byfn.setdefault(key, []).append(f)
    groups = []
    for key, fs in byfn.items():
        if len(fs) < 2:
            continue
        fs = [f for f in fs if den(f).same(den(fs[0]))][:(4 if tier == 'quick' else 6)]
        if len(fs) >= 2:
            groups.append(fs)
    agg['extra']['same_function_groups'] = len(groups)
    for out in ctx.map('samefn_check', [ch for ch in chunks(groups, 40) if ch]):
        agg['extra']['same_function_pairs'] = agg['extra'].get('same_function_pairs', 0) + out['transitions']
        merge(agg, out)
    # tosympy on every state of level <= 2 (+ a cap of level 3), == on all pairs of level <= 2 states
    sy = l12 + levels[3][:(300 if tier == 'quick' else 4000)]
    # variables whose names mean something to sympy's parser (imaginary unit, Euler's number, pi, singletons, functions): a variable
    # is a symbol whatever it is called
    for nme in ('I', 'E', 'pi', 'S', 'N', 'O', 'Q', 'oo', 'zoo', 'nan', 'beta', 'gamma', 'zeta', 're', 'im', 'x_1', 'e12'):
        sy += [('P', ((1, nme, nme), (1,))), ('P', ((2, 'a', nme), (3,))), ('RP', ('P', ((1, nme),)), ('P', ((1,), (1, nme, 'x'))))]
    for out in ctx.map('sympy_check', chunks(sy, 32)):
        agg['extra']['tosympy_checked'] = agg['extra'].get('tosympy_checked', 0) + out['evals']
        out['evals'] = 0
        merge(agg, out)
    eqf = l12[:cap]
    for out in ctx.map('eq_check', [(ch, eqf) for ch in chunks(eqf, 32)]):
        agg['extra']['eq_pairs_checked'] = agg['extra'].get('eq_pairs_checked', 0) + out['evals']
        out['evals'] = 0
        merge(agg, out)
    agg['states'] = len(seen)
    agg['evals'] = agg['transitions']
    agg['traces'] = agg['transitions']
    agg['nontrivial'] = len(seen)
    agg['extra']['states_per_level'] = {str(k): len(v) for k, v in levels.items()}
    agg['samples'] = [{'state': str(levels[2][len(levels[2]) // 2])}, {'state': str(levels[3][len(levels[3]) // 3]) if levels.get(3) else ''}]


def replay(case):
    res = Result()

    def tup(x):
        return tuple(tup(i) for i in x) if isinstance(x, list) else x
    if 'form' in case:
        return sympy_check([tup(case['form'])])
    if 'op' not in case:
        return eq_check(([tup(case['left'])], [tup(case['left']), tup(case['right'])]))
    lf = tup(case['left'])
    rights = [tup(case['right'])] if 'right' in case else []
    out = expand(([lf], rights, 'all' if 'right' not in case else 'binary'))
    if 'right' in case:
        out2 = expand(([tup(case['right'])], [lf], 'binary'))
        out['violations'] += out2['violations']
    out.pop('new')
    return out
