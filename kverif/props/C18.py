"""C18  Matrix representations are faithful."""
from fractions import Fraction

from .. import spaces, binprog
from ..common import Result, nmv, mvdict, cfg_name, cfg_repro, close
from ..harness import violation
from ..oracle import make_algebra

PID = 'C18'
LEVEL = 'exploration'
RULE = ('asmatrix: cases = (configuration, ordered pair of basis blades) - complete by bilinearity - plus dense Fraction-valued pairs for linearity; oracle: '
        'asmatrix(a) @ asmatrix(b) == sign * asmatrix(a*b) with the sign of the blade table, first column = unit vector at the canonical position, '
        'frommatrix(asmatrix(x)) == x. expr_as_matrix: cases = (configuration, linear expression, key pattern of R, key pattern of x, kind of R: symbolic / numeric / '
        'array-valued, res_like or not); oracle: at rational points A . coeffs(x) == coeffs(f(R, x)) on the returned keys and y == f(R, x). distinct = distinct '
        '(configuration, blades) / (configuration, expression, patterns, kind); non-trivial = non-zero product sign / non-zero matrix.')
ASSUMPTIONS = ['blade table and gp are those decided by C01/C02']
BOUNDS = {'quick': 'asmatrix: sig(d) d<=3 all blade pairs, pqr(4); custom bases <=1 deviation d<=3 and 2DPGA; expr_as_matrix: Algebra(2), Algebra(2,0,1) x 9 expressions x grade blocks',
          'thorough': 'asmatrix: sig(4), pqr(5), named algebras; expr_as_matrix: pqr(3) x 9 expressions x G(3) x 6 blocks x {symbolic, numeric, array} x res_like'}

EXPRS = {
    'R>>x': lambda R, x: R >> x, 'R*x': lambda R, x: R * x, 'x*R': lambda R, x: x * R, 'R|x': lambda R, x: R | x, 'x^R': lambda R, x: x ^ R,
    'R.cp(x)': lambda R, x: R.cp(x), '(R*x).grade(1)': lambda R, x: (R * x).grade(1), 'x.dual()': lambda R, x: x.dual(), 'R&x': lambda R, x: R & x,
}


def shards(tier, seed):
    sh = []
    maxd = 3 if tier == 'quick' else 4
    cfgs = [spaces.cfg_sig(s) for d in range(0, maxd + 1) for s in spaces.sig(d)]
    cfgs += [spaces.cfg_pqr(*t) for t in spaces.pqr(4 if tier == 'quick' else 5)]
    for ch in spaces.chunks(cfgs, 16 if tier == 'quick' else 48):
        sh.append(dict(stratum=f'asmatrix: all signature orderings d<={maxd} + pqr({maxd + 1}), all ordered blade pairs, first columns, frommatrix round trip', cfgs=ch, kind='mat'))
    cb = [spaces.cfg_sig(s, basis=b) for d in (2, 3) for b in spaces.bases_by_deviation(d, 1)[1:] for s in spaces.sig(d)[::5]] + [spaces.NAMED['2DPGA']]
    cb += [spaces.cfg_sig(s, start_index=st) for s in ([1, 1], [0, 1, 1], [1, -1, 1]) for st in (0, 2)]
    if tier == 'thorough':
        cb += [spaces.NAMED['3DPGA'], spaces.NAMED['STAP']]
    for ch in spaces.chunks(cb, 8):
        sh.append(dict(stratum='asmatrix: custom bases (<=1 deviation, named) and start indices', cfgs=ch, kind='mat'))
    ecfg = [spaces.cfg_pqr(2, 0, 0), spaces.cfg_pqr(2, 0, 1)] if tier == 'quick' else [spaces.cfg_pqr(*t) for t in spaces.pqr(3)] + [spaces.cfg_pqr(2, 0, 0), spaces.cfg_pqr(1, 1, 0)]
    for c in ecfg:
        for e in EXPRS:
            for rk in ('symbolic', 'numeric', 'array', 'numeric-tiny'):
                sh.append(dict(stratum='expr_as_matrix: linear expressions x key patterns x kind of the other input x res_like', cfg=c, kind='expr', expr=e, rkind=rk))
    return sh


def run_mat(shard, res):
    import numpy as np
    from kingdon import MultiVector
    for cfg in shard['cfgs']:
        alg = make_algebra(cfg)
        name = cfg_name(cfg)
        keys = list(alg.canon2bin.values())
        n = len(keys)
        case = {'shard': dict(shard, cfgs=[cfg])}
        bclass = 'custom-basis' if cfg.get('basis') else 'default-basis'
        head = f"from kingdon import Algebra\nalg = {cfg_repro(cfg)}\n"
        mats = {}
        ok = True
        for k in keys:
            res.evals += 1
            try:
                m = np.array(nmv(alg, (k,), [1]).asmatrix())
            except Exception as e:
                res.violate(violation(f'asmatrix:raises:{bclass}:d{alg.d}', f'{name}: asmatrix of blade {alg.bin2canon[k]} raises {type(e).__name__}: {e}', case, 'a matrix', repr(e), head))
                ok = False
                break
            mats[k] = m
            col = [0] * n
            col[keys.index(k)] = 1
            if m.shape != (n, n) or list(m[:, 0]) != col:
                res.violate(violation(f'asmatrix:first-column:{bclass}', f'{name}: first column of asmatrix({alg.bin2canon[k]}) is not the unit vector of its canonical position', case, col, list(m[:, 0]),
                                      head + f"print(alg.blades['{alg.bin2canon[k]}'].asmatrix()[:, 0])"))
        if not ok:
            continue
        bad = False
        for a in keys:
            for b in keys:
                res.evals += 1
                s = alg.signs[a, b]
                if s:
                    res.nontrivial += 1
                want = s * mats[a ^ b]
                if not np.array_equal(mats[a] @ mats[b], want):
                    na, nb = alg.bin2canon[a], alg.bin2canon[b]
                    res.violate(violation(f'asmatrix:homomorphism:{bclass}', f'{name}: asmatrix({na}) @ asmatrix({nb}) != asmatrix({na}*{nb})', case, 'equal matrices', 'different',
                                          head + f"a, b = alg.blades['{na}'], alg.blades['{nb}']\nprint(a.asmatrix() @ b.asmatrix() - (a*b).asmatrix())"))
                    bad = True
                    break
            if bad:
                break
        if alg.d <= 4:
            # linearity + round trip on dense Fraction valued elements (and a sparse, permuted one)
            x = nmv(alg, keys, [Fraction(3 + 2 * i, 1 + i % 3) * (-1) ** i for i in range(n)])
            y = nmv(alg, tuple(reversed(keys)), [Fraction(1 + i, 2 + i % 2) for i in range(n)])
            z = nmv(alg, keys[1:3], [Fraction(5, 2), Fraction(-1, 3)][:len(keys[1:3])])
            # plain python ints well above 127 (a narrow integer dtype of the basis matrices would wrap around)
            xi = nmv(alg, keys, [100 + 7 * i for i in range(n)])
            yi = nmv(alg, tuple(reversed(keys)), [-90 - 11 * i for i in range(n)])
            for p, q in ((x, y), (y, z), (z, x), (xi, yi), (yi, xi)):
                res.evals += 2
                res.nontrivial += 1
                try:
                    lin = sum((v * mats[k] for k, v in p.items()), 0 * mats[0])
                    mp = np.array(p.asmatrix())
                    if not np.array_equal(mp, lin):
                        res.violate(violation(f'asmatrix:linearity:{bclass}', f'{name}: asmatrix is not the linear combination of the blade matrices', case, 'linear', 'different', head))
                    prod = np.array((p * q).asmatrix())
                    if not bad and not np.array_equal(prod, np.array(p.asmatrix()) @ np.array(q.asmatrix())):
                        res.violate(violation(f'asmatrix:product:{bclass}', f'{name}: (x*y).asmatrix() != x.asmatrix() @ y.asmatrix() for dense Fraction valued x, y', case, 'equal', 'different', head))
                    back = MultiVector.frommatrix(alg, mp)
                    got, _ = mvdict(back)
                    want, _ = mvdict(p)
                    if any(got.get(k, 0) != want.get(k, 0) for k in keys):
                        res.violate(violation(f'frommatrix:{bclass}', f'{name}: frommatrix(asmatrix(x)) != x', case, want, got, head))
                except Exception as e:
                    res.violate(violation(f'asmatrix:dense:raises:{bclass}', f'{name}: {type(e).__name__}: {e}', case, '', repr(e), head))
            # the matrix is that of the *current* coefficients, and a returned matrix is the caller's: after an in-place change of
            # a returned matrix and of the multivector, asmatrix() is again the linear combination of the blade matrices
            if n >= 2:
                res.evals += 1
                try:
                    w = nmv(alg, keys, [3 + 2 * i for i in range(n)])
                    m1 = w.asmatrix()
                    try:
                        m1 *= 0
                    except Exception:
                        pass
                    w.values()[1] = 1000
                    m2 = np.array(w.asmatrix())
                    lin = sum((v * mats[k] for k, v in w.items()), 0 * mats[0])
                    if not np.array_equal(m2, lin):
                        res.violate(violation(f'asmatrix:after-inplace-change:{bclass}', f'{name}: after an in-place change of x (and of a matrix returned earlier) x.asmatrix() is not the matrix of the current x',
                                              case, 'matrix of the current coefficients', 'different', head))
                except Exception as e:
                    res.violate(violation(f'asmatrix:after-inplace-change:raises:{bclass}', f'{name}: {type(e).__name__}: {e}', case, '', repr(e), head))
        if len(res.samples) < 2 and alg.d >= 2:
            res.sample({'config': name, 'blade_pairs': n * n, 'matrix_size': n})


def run_expr(shard, res):
    import numpy as np
    import sympy
    from kingdon.matrixreps import expr_as_matrix
    cfg = shard['cfg']
    alg = make_algebra(cfg)
    name = cfg_name(cfg)
    ename = shard['expr']
    f = EXPRS[ename]
    c = tuple(alg.canon2bin.values())
    G = [g for g in spaces.G(c, alg.d) if g]
    if alg.d >= 3:
        pick = [(0,), (1,), (2,), (0, 2), (1, 3), tuple(range(alg.d + 1))]
        G = [tuple(k for k in c if spaces.grade_of(k) in gs) for gs in pick]
        G = [g for g in G if g]
    rkind = shard['rkind']
    case = {'shard': shard}
    Gr = G + [tuple(reversed(g)) for g in G if len(g) >= 2][:3]       # the other input also in non-canonical key order
    for i, kr in enumerate(Gr):
        for j, kx in enumerate(G):
            x = alg.multivector(name='x', keys=kx)
            rvals = [Fraction(2 + ((3 * t + i) % 5), 1 + (t % 2)) * (-1 if t % 3 == 1 else 1) for t in range(len(kr))]
            xvals = [Fraction(1 + ((2 * t + j) % 7), 2 + (t % 3)) * (-1 if t % 2 == 1 else 1) for t in range(len(kx))]
            if rkind == 'numeric-tiny':
                # coefficients of magnitude 1e-9 (infinitesimal generators, micro-rotations): entries of A stay what they are
                rvals = [Fraction(float(v) * 1e-9) for v in rvals]
            if rkind == 'symbolic':
                Rm = alg.multivector(name='R', keys=kr)
            elif rkind in ('numeric', 'numeric-tiny'):
                Rm = nmv(alg, kr, [float(v) for v in rvals])
            else:
                Rm = nmv(alg, kr, np.array([[float(v), float(v) / 2 + 1] for v in rvals]))
            Rnum = nmv(alg, kr, rvals)
            xnum = nmv(alg, kx, xvals)
            try:
                ynum, _ = mvdict(f(Rnum, xnum))
            except Exception:
                res.skipped += 1
                continue
            for use_res_like in (False, True):
                res.evals += 1
                kw = {}
                if use_res_like:
                    rl_keys = tuple(k for k in c if spaces.grade_of(k) == 1)[:2] or (0,)
                    kw['res_like'] = nmv(alg, rl_keys, [1] * len(rl_keys))
                desc = f'{name} {ename} R keys {kr} ({rkind}) x keys {kx} res_like={use_res_like}'
                try:
                    A, y = expr_as_matrix(f, Rm, x, **kw)
                except Exception as e:
                    res.violate(violation(f'expr_as_matrix:{rkind}:raises', f'{desc}: {type(e).__name__}: {e}', case, 'A, y', repr(e)))
                    continue
                ykeys = list(y.keys())
                if use_res_like and tuple(ykeys) != tuple(kw['res_like'].keys()):
                    res.violate(violation(f'expr_as_matrix:{rkind}:res_like-keys', f'{desc}: y has keys {ykeys}', case, list(kw['res_like'].keys()), ykeys))
                    continue
                # evaluate A at the rational point
                try:
                    if rkind == 'symbolic':
                        subs = {sympy.Symbol('R' + alg.bin2canon[k][1:]): sympy.Rational(v.numerator, v.denominator) for k, v in zip(kr, rvals)}
                        An = np.array(sympy.Matrix(A).subs(subs).tolist(), dtype=object)
                        An = np.array([[Fraction(int(e.p), int(e.q)) if hasattr(e, 'p') else Fraction(float(e)) for e in row] for row in An.tolist()], dtype=object).reshape(len(ykeys), len(kx))
                    elif rkind in ('numeric', 'numeric-tiny'):
                        An = np.array(A, dtype=float).reshape(len(ykeys), len(kx))
                    else:
                        # entries are arrays over the trailing axis of R, or plain scalars where the entry does not depend on R
                        rows = A.tolist() if hasattr(A, 'tolist') else A
                        An = np.array([[float(np.asarray(rows[r][cc], dtype=float).reshape(-1)[0]) for cc in range(len(kx))] for r in range(len(ykeys))])
                        An1 = np.array([[float(np.asarray(rows[r][cc], dtype=float).reshape(-1)[-1]) for cc in range(len(kx))] for r in range(len(ykeys))])
                        R1 = nmv(alg, kr, [Fraction(float(v) / 2 + 1) for v in rvals])
                        y1, _ = mvdict(f(R1, xnum))
                        got1 = [sum(An1[r][cc] * float(xvals[cc]) for cc in range(len(kx))) for r in range(len(ykeys))]
                        if any(not close(g, y1.get(k, 0), 1e-9) for g, k in zip(got1, ykeys)):
                            res.violate(violation(f'expr_as_matrix:{rkind}:A.x!=y:second-element', f'{desc}: second array element of A is wrong', case, [str(y1.get(k, 0)) for k in ykeys], [str(g) for g in got1]))
                            continue
                except Exception as e:
                    res.violate(violation(f'expr_as_matrix:{rkind}:matrix-shape', f'{desc}: returned matrix cannot be read: {type(e).__name__}: {e}', case, f'{len(ykeys)}x{len(kx)} matrix', repr(e)))
                    continue
                got = [sum(An[r][cc] * xvals[cc] for cc in range(len(kx))) for r in range(len(ykeys))]
                want = [ynum.get(k, 0) for k in ykeys]
                if any(v != 0 for v in want):
                    res.nontrivial += 1
                if rkind == 'numeric-tiny':
                    scale = max([abs(float(w)) for w in want] + [abs(float(g)) for g in got] + [0.0])
                    differs = any(abs(float(g) - float(w)) > 1e-9 * scale for g, w in zip(got, want))
                else:
                    differs = any(not close(g, w, 1e-9) for g, w in zip(got, want))
                if differs:
                    res.violate(violation(f'expr_as_matrix:{rkind}:A.x!=y', f'{desc}: A . coeffs(x) differs from coeffs(f(R, x))', case, [str(w) for w in want], [str(g) for g in got]))
                    continue
                # blades of f(R,x) that are non-zero must not be missing from y unless res_like restricts it
                if not use_res_like:
                    miss = [k for k, v in ynum.items() if v != 0 and k not in ykeys]
                    if miss:
                        res.violate(violation(f'expr_as_matrix:{rkind}:missing-rows', f'{desc}: y lacks blades {miss} with non-zero coefficients', case, sorted(ynum), ykeys))
    res.sample({'config': name, 'expression': ename, 'kind_of_R': rkind, 'patterns': len(G) ** 2})


def run_shard(shard):
    res = Result()
    if shard['kind'] == 'mat':
        run_mat(shard, res)
    else:
        run_expr(shard, res)
    return res.asdict()
