"""C15  Multivector construction and coefficient access round-trip."""
from fractions import Fraction
from itertools import permutations, combinations

from .. import spaces, binprog
from ..common import Result, cfg_name, cfg_repro
from ..harness import violation
from ..oracle import make_algebra, sort_word

PID = 'C15'
LEVEL = 'exploration'
RULE = ('cases = (algebra incl. graded mode and custom bases, construction form, key subset and order, spelling of each blade name, accessor); oracle = '
        'the dict blade -> supplied coefficient (times permutation parity for permuted spellings), absent = 0; invalid inputs (length mismatch, keys '
        'outside the declared grades, grade out of range, incomplete grades in graded mode) must raise. distinct = distinct (algebra, form, keys, '
        'spelling, accessor); non-trivial = at least one stored blade.')
ASSUMPTIONS = ['not judged: two keywords naming the same blade, repeated generators (e11), duplicate keys, generators outside the algebra, non-canonical '
               'spellings inside keys=/mappings/`in` (they raise KeyError, not a wrong value), unsorted grades']
BOUNDS = {
    'quick': 'Algebra(2), Algebra(2,0,1), 2DPGA (+ graded variants): all key subsets <=3 blades in every order x 7 construction forms x all accessors; every '
             'spelling of every blade as keyword and attribute; pairs of keywords; grade-restricted and named constructors; invalid inputs',
    'thorough': 'adds Algebra(3), Algebra(1,1,1), 3DPGA, Algebra(4) (subsets <=2), triples of keywords with mixed spellings',
}


def shards(tier, seed):
    cfgs = [spaces.cfg_pqr(2, 0, 0), spaces.cfg_pqr(2, 0, 1), spaces.NAMED['2DPGA']]
    if tier == 'thorough':
        cfgs += [spaces.cfg_pqr(3, 0, 0), spaces.cfg_pqr(1, 1, 1), spaces.NAMED['3DPGA'], spaces.cfg_pqr(4, 0, 0), spaces.cfg_sig([1, -1], start_index=0)]
    sh = []
    for c in cfgs:
        for graded in (False, True):
            d = len(c.get('basis', [])).bit_length() - 1 if c.get('basis') else c['p'] + c['q'] + c['r'] if 'p' in c else len(c['signature'])
            n = 1 if d <= 2 else (6 if d == 3 else 12)
            for i in range(n):
                sh.append(dict(stratum='construction forms x key subsets/orders x accessors', cfg=c, graded=graded, kind='forms', chunk=(i, n), maxsize=3 if d <= 3 else 2))
            sh.append(dict(stratum='every spelling of every blade as keyword and as attribute; several keywords at once', cfg=c, graded=graded, kind='spell',
                           triples=(tier == 'thorough' and d <= 3)))
            sh.append(dict(stratum='grade-restricted, named and convenience constructors; invalid inputs must raise', cfg=c, graded=graded, kind='ctor'))
    return sh


def spellings(name):
    """All permutations of the generator letters with their parity relative to `name`."""
    letters = name[1:]
    out = []
    for perm in permutations(range(len(letters))):
        par, _ = sort_word(list(perm))
        out.append(('e' + ''.join(letters[i] for i in perm), par))
    return out


def check_access(res, alg, mv, expected, ctx, case, repro):
    """expected: {key: value} in stored order (list of pairs)."""
    name = ctx
    exp = dict(expected)
    keys_in_order = [k for k, _ in expected]

    def V(key, what, want, got):
        res.violate(violation(key, f'{name}: {what}', case, want, got, repro))
    res.evals += 1
    if list(mv.keys()) != keys_in_order or list(mv.values()) != [v for _, v in expected]:
        if dict(zip(mv.keys(), mv.values())) != exp:
            V('items', 'items() do not reflect the supplied coefficients', exp, dict(zip(mv.keys(), mv.values())))
            return
    if dict(mv.items()) != exp or len(mv) != len(exp):
        V('items', 'items()/len() inconsistent', exp, dict(mv.items()))
    for nm, k in alg.canon2bin.items():
        # attribute access with every spelling
        for sp, par in spellings(nm) if len(nm) <= 5 else [(nm, 1)]:
            res.evals += 1
            want = par * exp[k] if k in exp else 0
            try:
                got = getattr(mv, sp)
            except Exception as e:
                got = f'{type(e).__name__}: {e}'
            if got != want:
                kind = 'canonical' if sp == nm else ('odd' if par < 0 else 'even')
                V(f'getattr:{kind}-spelling', f'mv.{sp} reads {got!r}', want, got)
        res.evals += 2
        if (nm in mv) != (k in exp) or (k in mv) != (k in exp):
            V('contains', f'`{nm} in mv` / `{k} in mv`', k in exp, (nm in mv, k in mv))
    d = alg.d
    for g in range(d + 1):
        res.evals += 1
        sub = {k: v for k, v in exp.items() if bin(k).count('1') == g}
        try:
            got = dict(mv.grade(g).items())
        except Exception as e:
            got = f'{type(e).__name__}: {e}'
        if got != sub:
            V('grade', f'grade({g})', sub, got)
    for canonical in (True, False):
        res.evals += 1
        try:
            f = mv.asfullmv(canonical=canonical)
            want_keys = list(alg.canon2bin.values()) if canonical else list(range(len(alg)))
            got = dict(f.items())
            if list(f.keys()) != want_keys or any(got[k] != exp.get(k, 0) for k in want_keys):
                V(f'asfullmv:{canonical}', 'asfullmv does not reproduce the coefficients', exp, got)
        except Exception as e:
            V(f'asfullmv:{canonical}', f'asfullmv raises {type(e).__name__}: {e}', exp, repr(e))
    res.evals += 4
    try:
        m1 = dict(mv.map(lambda v: 2 * v).items())
        m2 = dict(mv.map(lambda k, v: v + k).items())
        f1 = dict(mv.filter(lambda v: v > 11).items())
        f2 = dict(mv.filter(lambda k, v: k % 2 == 1).items())
        if m1 != {k: 2 * v for k, v in exp.items()} or m2 != {k: v + k for k, v in exp.items()}:
            V('map', 'map() result', {k: 2 * v for k, v in exp.items()}, m1)
        if f1 != {k: v for k, v in exp.items() if v > 11} or f2 != {k: v for k, v in exp.items() if k % 2 == 1}:
            V('filter', 'filter() result', {k: v for k, v in exp.items() if v > 11}, f1)
        # filter() without argument uses the algebra's simp_func as predicate and keeps the stored values as they are
        f0 = dict(mv.filter().items())
        if f0 != {k: v for k, v in exp.items() if v}:
            V('filter:default', 'filter() without argument', {k: v for k, v in exp.items() if v}, f0)
    except Exception as e:
        V('map-filter', f'map/filter raises {type(e).__name__}: {e}', '', repr(e))


def run_shard(shard):
    res = Result()
    cfg = shard['cfg']
    graded = shard['graded']
    alg = make_algebra(cfg, graded=graded)
    name = cfg_name(cfg) + (' graded' if graded else '')
    head = f"from kingdon import Algebra\nalg = {cfg_repro({**cfg, 'options': {'graded': True}} if graded else cfg)}\n"
    canon = tuple(alg.canon2bin.values())
    names = alg.bin2canon
    case = {'shard': shard}
    G = 'graded' if graded else 'plain'

    def valid_in_mode(keys):
        if not graded or not keys:
            return True
        grades = tuple(sorted({bin(k).count('1') for k in keys}))
        return tuple(keys) == tuple(alg.indices_for_grades[grades])

    if shard['kind'] == 'forms':
        subs = binprog.expand(('S', shard['maxsize']), alg)
        if graded:
            subs = subs + [t for t in spaces.G(canon, alg.d) if t and t not in subs]
        i, n = shard['chunk']
        mine = spaces.chunks(subs, n)[i] if i < len(spaces.chunks(subs, n)) else []
        for ks in mine:
            orders = list(permutations(ks)) if len(ks) <= 3 else [tuple(ks), tuple(reversed(ks))]
            for order in orders:
                vals = [10 + canon.index(k) for k in order]
                exp = list(zip(order, vals))
                snames = [names[k] for k in order]
                forms = {
                    'values+intkeys': lambda: alg.multivector(values=list(vals), keys=tuple(order)),
                    'values+strkeys': lambda: alg.multivector(values=list(vals), keys=tuple(snames)),
                    'values+mixedkeys': lambda: alg.multivector(values=list(vals), keys=tuple(k if j % 2 else s for j, (k, s) in enumerate(zip(order, snames)))),
                    'positional': lambda: alg.multivector(list(vals), tuple(order)),
                    'mapping-int': lambda: alg.multivector(dict(zip(order, vals))),
                    'mapping-str': lambda: alg.multivector(dict(zip(snames, vals))),
                    'keywords': lambda: alg.multivector(**dict(zip(snames, vals))),
                }
                for fname, th in forms.items():
                    if fname == 'keywords' and not order:
                        continue
                    if fname == 'mapping-int' and not order:
                        continue
                    if fname == 'mapping-str' and not order:
                        continue
                    res.evals += 1
                    if order:
                        res.nontrivial += 1
                    e = exp if fname != 'keywords' else sorted(exp, key=lambda kv: canon.index(kv[0]))
                    ok_mode = valid_in_mode([k for k, _ in e])
                    repro = head + f"# form {fname}, keys {order} ({snames}), values {vals}"
                    try:
                        mv = th()
                    except Exception as ex:
                        if ok_mode:
                            res.violate(violation(f'{fname}:raises:{G}', f'{name}: form {fname} keys {order} raises {type(ex).__name__}: {ex}', case, dict(exp), repr(ex), repro))
                        continue
                    if not ok_mode:
                        res.violate(violation(f'{fname}:incomplete-grades-accepted:{G}', f'{name}: form {fname} with keys {order} returns a multivector although the grades are incomplete in graded mode',
                                              case, 'ValueError', dict(mv.items()), repro))
                        continue
                    check_access(res, alg, mv, e, f'{name} form {fname} keys {order}', case, repro)
            if len(res.samples) < 1 and len(ks) == 3:
                res.sample({'config': name, 'keys': list(ks), 'orders': len(orders), 'forms': 7})
    elif shard['kind'] == 'spell':
        blades = [(nm, k) for nm, k in alg.canon2bin.items()]
        allsp = [(nm, k, sp, par) for nm, k in blades for sp, par in (spellings(nm) if len(nm) <= 5 else [(nm, 1)])]
        # single keyword with every spelling
        for nm, k, sp, par in allsp:
            if graded and len(alg.indices_for_grade[len(nm) - 1]) != 1:
                continue
            res.evals += 1
            res.nontrivial += 1
            kind = 'canonical' if sp == nm else ('odd' if par < 0 else 'even')
            repro = head + f"print(alg.multivector({sp}=5))  # expected {par * 5} {nm}"
            try:
                mv = alg.multivector(**{sp: 5})
                got = dict(mv.items())
            except Exception as ex:
                res.violate(violation(f'kwarg:{kind}-permutation-spelling:raises', f'{name}: alg.multivector({sp}=5) raises {type(ex).__name__}: {ex}', case, {k: par * 5}, repr(ex), repro))
                continue
            if got != {k: par * 5}:
                res.violate(violation(f'kwarg:{kind}-permutation-spelling:value', f'{name}: alg.multivector({sp}=5)', case, {k: par * 5}, got, repro))
        # two (three) keywords at once, mixed spellings, different blades
        if not graded:
            combos = [c for c in combinations(allsp, 2) if c[0][1] != c[1][1]]
            if shard.get('triples'):
                big = [x for x in allsp if len(x[0]) >= 3]
                combos += [c for c in combinations(big + allsp[:3], 3) if len({x[1] for x in c}) == 3][:4000]
            for combo in combos:
                res.evals += 1
                res.nontrivial += 1
                kw = {sp: 3 + 2 * j for j, (nm, k, sp, par) in enumerate(combo)}
                want = {k: par * (3 + 2 * j) for j, (nm, k, sp, par) in enumerate(combo)}
                kinds = sorted({'canonical' if sp == nm else ('odd' if par < 0 else 'even') for nm, k, sp, par in combo})
                repro = head + f"print(alg.multivector(**{kw}))"
                try:
                    got = dict(alg.multivector(**kw).items())
                except Exception as ex:
                    res.violate(violation(f"kwargs:{'+'.join(kinds)}:raises", f'{name}: alg.multivector(**{kw}) raises {type(ex).__name__}: {ex}', case, want, repr(ex), repro))
                    continue
                if got != want:
                    res.violate(violation(f"kwargs:{'+'.join(kinds)}:value", f'{name}: alg.multivector(**{kw}) drops or negates a coefficient', case, want, got, repro))
        res.sample({'config': name, 'spellings': len(allsp)})
    else:
        d = alg.d
        import sympy
        # grades= + value list, convenience constructors
        for n in range(1, d + 2):
            for gs in combinations(range(d + 1), n):
                keys = alg.indices_for_grades[gs]
                vals = [20 + j for j in range(len(keys))]
                res.evals += 3
                res.nontrivial += 1
                repro = head + f"print(alg.multivector({vals}, grades={gs}))"
                try:
                    mv = alg.multivector(list(vals), grades=gs)
                    if dict(mv.items()) != dict(zip(keys, vals)) or mv.grades != gs:
                        res.violate(violation(f'grades+values:{G}', f'{name}: values + grades={gs}', case, dict(zip(keys, vals)), dict(mv.items()), repro))
                    else:
                        check_access(res, alg, mv, list(zip(keys, vals)), f'{name} grades={gs}', case, repro)
                except Exception as ex:
                    res.violate(violation(f'grades+values:raises:{G}', f'{name}: values + grades={gs} raises {type(ex).__name__}: {ex}', case, '', repr(ex), repro))
                # named symbolic
                try:
                    mv = alg.multivector(name='s', grades=gs)
                    want = {k: sympy.Symbol('s' + alg.bin2canon[k][1:]) for k in keys}
                    if dict(mv.items()) != want:
                        res.violate(violation(f'name+grades:{G}', f"{name}: name='s', grades={gs}", case, want, dict(mv.items()), repro))
                    mv2 = alg.multivector(name='t', keys=tuple(keys))
                    if dict(mv2.items()) != {k: sympy.Symbol('t' + alg.bin2canon[k][1:]) for k in keys}:
                        res.violate(violation(f'name+keys:{G}', f"{name}: name='t', keys={keys}", case, '', dict(mv2.items()), repro))
                except Exception as ex:
                    res.violate(violation(f'name:raises:{G}', f'{name}: named constructor grades={gs} raises {type(ex).__name__}: {ex}', case, '', repr(ex), repro))
                # invalid: wrong length
                for bad in (vals + [1], vals[:-1]):
                    if len(bad) == 0 or len(bad) == len(alg):
                        continue
                    res.evals += 1
                    try:
                        mv = alg.multivector(list(bad), grades=gs)
                        res.violate(violation(f'invalid:length-mismatch-accepted:{G}', f'{name}: {len(bad)} values for grades={gs} ({len(keys)} blades) accepted', case, 'an error', dict(mv.items()), repro))
                    except Exception:
                        pass
                # invalid: key outside the declared grades, also for the by-name (symbolic) form
                outside = [k for k in canon if bin(k).count('1') not in gs]
                if outside:
                    res.evals += 1
                    try:
                        mv = alg.multivector(name='q', keys=(outside[0],), grades=gs)
                        res.violate(violation(f'invalid:key-outside-grades-accepted:by-name:{G}', f"{name}: name='q', keys=({outside[0]},) with grades={gs} accepted", case, 'an error', dict(mv.items()), repro))
                    except Exception:
                        pass
                if outside:
                    res.evals += 1
                    try:
                        mv = alg.multivector(values=[1], keys=(outside[0],), grades=gs)
                        res.violate(violation(f'invalid:key-outside-grades-accepted:{G}', f'{name}: key {outside[0]} with grades={gs} accepted', case, 'an error', dict(mv.items()), repro))
                    except Exception:
                        pass
        conv = {'scalar': (0,), 'vector': (1,), 'bivector': (2,), 'trivector': (3,), 'quadvector': (4,), 'pseudoscalar': (d,), 'pseudovector': (d - 1,),
                'pseudobivector': (d - 2,), 'evenmv': tuple(g for g in range(d + 1) if g % 2 == 0), 'oddmv': tuple(g for g in range(d + 1) if g % 2 == 1)}
        for cname, gs in conv.items():
            if any(g < 0 or g > d for g in gs):
                res.evals += 1
                try:
                    getattr(alg, cname)([1])
                    res.violate(violation(f'invalid:grade-out-of-range-accepted:{G}', f'{name}: alg.{cname}([1]) accepted although grade {gs} does not exist', case, 'an error', 'accepted'))
                except Exception:
                    pass
                continue
            keys = alg.indices_for_grades[gs]
            vals = [30 + j for j in range(len(keys))]
            res.evals += 1
            try:
                mv = getattr(alg, cname)(list(vals))
                if dict(mv.items()) != dict(zip(keys, vals)):
                    res.violate(violation(f'convenience:{cname}:{G}', f'{name}: alg.{cname}({vals})', case, dict(zip(keys, vals)), dict(mv.items())))
            except Exception as ex:
                res.violate(violation(f'convenience:{cname}:raises:{G}', f'{name}: alg.{cname}({vals}) raises {type(ex).__name__}: {ex}', case, '', repr(ex)))
        for bad_g in (-1, d + 1):
            res.evals += 1
            try:
                alg.multivector([1], grades=(bad_g,))
                res.violate(violation(f'invalid:grade-out-of-range-accepted:{G}', f'{name}: grades=({bad_g},) accepted', case, 'an error', 'accepted'))
            except Exception:
                pass
        # grade tuples with a repeated or unsorted grade: refused, or - if accepted - no blade is stored twice and every supplied
        # coefficient can be read back
        if d >= 1:
            for gs in ((1, 1), (0, 0), (d, 0), (1, 0, 1)):
                res.evals += 1
                n = sum(len(alg.indices_for_grade[g]) for g in gs)
                rvals = [30 + 2 * i for i in range(n)]
                for how, th in (('values', lambda: alg.multivector(list(rvals), grades=gs)), ('name', lambda: alg.multivector(name='q', grades=gs))):
                    try:
                        mv = th()
                    except Exception:
                        continue
                    ks = list(mv.keys())
                    if len(set(ks)) != len(ks) or len(ks) != len(mv.values()):
                        res.violate(violation(f'invalid:repeated-grades-accepted:{G}', f'{name}: multivector({how}, grades={gs}) accepted and stores blades twice: keys {tuple(ks)}', case,
                                              'an error, or a multivector without repeated blades', tuple(ks)))
        # length mismatch keys/values
        for keys, vals in (((1, 2), [1]), ((1,), [1, 2]), ((), [1])):
            if len(vals) == len(alg):
                continue
            res.evals += 1
            try:
                mv = alg.multivector(values=list(vals), keys=keys)
                res.violate(violation(f'invalid:keys-values-length-mismatch-accepted:{G}', f'{name}: keys={keys} values={vals} accepted', case, 'an error', dict(mv.items())))
            except Exception:
                pass
        if graded and d >= 2:
            # incomplete grades in graded mode, every construction form
            k1 = canon[1]
            forms = {'values+keys': lambda: alg.multivector(values=[1], keys=(k1,)), 'mapping-int': lambda: alg.multivector({k1: 1}),
                     'mapping-str': lambda: alg.multivector({alg.bin2canon[k1]: 1}), 'keywords': lambda: alg.multivector(**{alg.bin2canon[k1]: 1}),
                     'name+keys': lambda: alg.multivector(name='q', keys=(k1,))}
            for fname, th in forms.items():
                res.evals += 1
                res.nontrivial += 1
                try:
                    mv = th()
                    res.violate(violation(f'{fname}:incomplete-grades-accepted:graded', f'{name}: form {fname} with the single key {k1} returns a multivector with incomplete grades in graded mode',
                                          case, 'ValueError', dict(mv.items()), head + f"print(alg.multivector({{{k1}: 1}}))"))
                except Exception:
                    pass
        # map() calls the function once per coefficient, whatever container holds the coefficients
        import numpy as np
        keysN = tuple(alg.canon2bin.values()) if graded else tuple(alg.canon2bin.values())[:3]
        for arr in (np.array([1.0 + 2 * j for j in range(len(keysN))]), np.array([[1.0 + j, 5.0 - 2 * j, 0.5 * j] for j in range(len(keysN))])):
            for backing in ('ndarray', 'list'):
                res.evals += 1
                vals = arr.copy() if backing == 'ndarray' else [row.copy() if hasattr(row, 'copy') else row for row in arr]
                try:
                    mvn = alg.multivector(values=vals, keys=keysN)
                    got = [np.asarray(v, dtype=float) for v in mvn.map(lambda v: v - np.mean(v) + np.size(v)).values()]
                    want = [np.asarray(row - np.mean(row) + np.size(row), dtype=float) for row in arr]
                    if len(got) != len(want) or any(g.shape != w.shape or not np.allclose(g, w) for g, w in zip(got, want)):
                        res.violate(violation(f'map:per-coefficient:{backing}', f'{name}: map() over {backing}-backed coefficients of shape {arr.shape} did not apply the function per coefficient',
                                              case, str([w.tolist() for w in want])[:200], str([g.tolist() for g in got])[:200]))
                except Exception as ex:
                    res.violate(violation(f'map:per-coefficient:raises:{backing}', f'{name}: map() over {backing}-backed coefficients raises {type(ex).__name__}: {ex}', case, '', repr(ex)))
        # a custom simp_func (tolerance predicate): filter() keeps exactly the coefficients it accepts, unchanged
        res.evals += 1
        alg2 = make_algebra(cfg, graded=graded, simp_func=lambda v: abs(v) > 11)
        keys2 = tuple(alg2.canon2bin.values()) if graded else tuple(alg2.canon2bin.values())[:3]
        try:
            mv2 = alg2.multivector(values=[10.5 + j for j in range(len(keys2))], keys=keys2)
            got = dict(mv2.filter().items())
            want = {k: 10.5 + j for j, k in enumerate(keys2) if 10.5 + j > 11}
            if got != want:
                res.violate(violation(f'filter:custom-simp_func:{G}', f'{name}: filter() with a custom simp_func', case, want, got))
        except Exception as ex:
            res.violate(violation(f'filter:custom-simp_func:raises:{G}', f'{name}: filter() with a custom simp_func raises {type(ex).__name__}: {ex}', case, '', repr(ex)))
        res.sample({'config': name, 'grade_selections': 2 ** (d + 1) - 1, 'convenience_constructors': len(conv)})
    return res.asdict()
