"""C07  Inverse and division are exact two-sided inverses wherever they return."""
from fractions import Fraction
from itertools import product

from .. import spaces, binprog
from ..common import Result, gmv, nmv, mvdict, show, cfg_name, cfg_repro, close
from ..harness import violation
from ..oracle import make_algebra, ref_from_config, mv_to_ref, Ref
from ..ring import R, Trap, iszero, same

PID = 'C07'
LEVEL = 'exploration'
RULE = ('cases = (configuration, key tuple, value point): (i) the generic point of the fraction field R (x*inv(x) = inv(x)*x = 1 as an identity '
        'of rational functions, a/b = a*inv(b)); (ii) every point of the Fraction grid {-2..2}^k on the stored blades: if inv() returns, both '
        'products (computed by the reference algebra) are exactly 1 (to 1e-9 for d>=6 or int inputs), if it raises ZeroDivisionError the exact '
        'linear solve must find no inverse; any other exception is a violation. distinct = distinct (configuration, keys, point); non-trivial = '
        'the operand is invertible with at least two stored non-zero blades.')
ASSUMPTIONS = ['reference inverse = exact Gauss elimination of the left multiplication matrix over Fractions',
               'products are formed by the reference algebra (and by kingdon\'s gp in the generic stratum)']
BOUNDS = {
    'quick': 'sig(d) d<=2: all ordered tuples (<=4 blades) x grid {-2..2}^k; sig(3): subsets <=2 blades x grid, generic point for subsets <=3 blades of 6 '
             'configurations; d=4: 4 configurations x subsets <=2 blades; d=6,7: structured sparse patterns (tolerance)',
    'thorough': 'sig(3): subsets <=4 blades x grid {-2..2}^k, dense canonical/binary/reversed layouts on a thinner grid; d=4: pqr(4)+6 mixed orderings, '
                'subsets <=3 blades, grade blocks; d=5: subsets <=2 blades, single grades <=2; d=6,7: sparse patterns and scalar+bivector; division and number/x',
}
GRID = [Fraction(v) for v in (-2, -1, 0, 1, 2)]


def shards(tier, seed):
    sh = []
    mk = lambda stratum, cfg, spec, n=1, **kw: [dict(stratum=stratum, cfg=cfg, spec=list(spec), chunk=(i, n), **kw) for i in range(n)]
    for d in (0, 1, 2):
        for s in spaces.sig(d):
            sh += mk('d<=2 all orderings: all ordered tuples x Fraction grid {-2..2}^k + generic point', spaces.cfg_sig(s), ('T', 4), 2 if d == 2 else 1, generic=3, grid=4)
    g6 = [spaces.cfg_pqr(3, 0, 0), spaces.cfg_pqr(2, 0, 1), spaces.cfg_pqr(1, 1, 1), spaces.cfg_pqr(0, 3, 0), spaces.cfg_sig([1, 0, -1]), spaces.cfg_sig([-1, 1, 1])]
    if tier == 'quick':
        for s in spaces.sig(3):
            sh += mk('d=3 all 27 orderings: subsets <=2 blades x grid', spaces.cfg_sig(s), ('S', 2), 1, grid=4)
        for c in g6:
            sh += mk('d=3: generic point (fraction field) for subsets <=3 blades, division a/b and n/x', c, ('S', 3), 3, generic=3, grid=0, div=True)
        for t in [(4, 0, 0), (3, 0, 1), (1, 3, 0), (2, 1, 1)]:
            sh += mk('d=4: subsets <=2 blades x grid', spaces.cfg_pqr(*t), ('S', 2), 4, grid=3)
        for t in [(6, 0, 0), (5, 0, 1), (7, 0, 0)]:
            sh += mk('d=6,7 (iterative scheme): structured sparse patterns, tolerance 1e-9', spaces.cfg_pqr(*t), ('sparse2',), 4, grid=2, tol=True)
        for t in [(5, 0, 0), (4, 0, 1)]:
            sh += mk('d=5 (closed form, exact): scalar+blade patterns x grid, sums of commuting blades', spaces.cfg_pqr(*t), ('list', 'scalar+biv2'), 1, grid=3)
            sh += mk('d=5 (closed form, exact): scalar+blade patterns x grid, sums of commuting blades', spaces.cfg_pqr(*t), ('commuting',), 1, grid=0, ones=True)
        for t in [(5, 0, 0), (2, 3, 0), (4, 0, 0)]:
            sh += mk('d=4,5 (closed forms, exact): all subsets of 2..4 blades of a 7-blade menu mixing grades 0..4', spaces.cfg_pqr(*t), ('list', 'mixed'), 8, grid=0, ones=True)
        for t in [(6, 0, 0), (4, 1, 1), (7, 0, 0)]:
            sh += mk('d=6,7 (iterative scheme): scalar part not stored first', spaces.cfg_pqr(*t), ('list', 'scalar-not-first'), 3, grid=0, ones=True, tol=True)
        for t in [(4, 0, 0), (3, 1, 0), (6, 0, 0), (5, 1, 0)]:
            sh += mk('d=4,6: sums of pairwise commuting blades (maximal minimal polynomial)', spaces.cfg_pqr(*t), ('commuting',), 1, grid=0, ones=True, tol=(t[0] + t[1] >= 6))
        sh += mk('d=7: sum of four pairwise commuting blades (full length of the iterative scheme)', spaces.cfg_pqr(7, 0, 0), ('list', 'commuting1'), 1, grid=0, ones=True, tol=True)
    else:
        for s in spaces.sig(3):
            sh += mk('d=3 all 27 orderings: subsets <=4 blades x grid {-2..2}^k', spaces.cfg_sig(s), ('S', 4), 6, grid=4)
            sh += mk('d=3: dense canonical / binary / reversed layouts on the grid {-1,0,2}^8 thinned to 3^5 (3 fixed zeros)', spaces.cfg_sig(s), ('full',), 1, grid=0, dense=True)
        for c in g6:
            sh += mk('d=3: generic point (fraction field) for subsets <=3 blades, division a/b and n/x', c, ('S', 3), 6, generic=3, grid=0, div=True)
            sh += mk('d=3: ordered tuples <=3 blades (permuted layouts) x grid', c, ('T', 3), 8, grid=3)
        for c in [spaces.cfg_pqr(*t) for t in spaces.pqr(4)] + [spaces.cfg_sig(s) for s in spaces.mixed_orderings(4)]:
            sh += mk('d=4: subsets <=3 blades x grid {-2..2}^k (k<=3), grade blocks', c, ('S', 3), 12, grid=3)
            sh += mk('d=4: subsets <=3 blades x grid {-2..2}^k (k<=3), grade blocks', c, ('Gsmall',), 2, grid=0, ones=True)
        for t in [(5, 0, 0), (4, 0, 1), (3, 1, 1), (1, 4, 0)]:
            sh += mk('d=5: subsets <=2 blades x grid; single grades <=2', spaces.cfg_pqr(*t), ('S', 2), 12, grid=2)
            sh += mk('d=5: subsets <=2 blades x grid; single grades <=2', spaces.cfg_pqr(*t), ('list', 'grades012'), 1, grid=0, ones=True)
        for t in [(6, 0, 0), (5, 0, 1), (4, 1, 1), (7, 0, 0), (6, 0, 1)]:
            sh += mk('d=6,7 (iterative scheme): structured sparse patterns and scalar+bivector, tolerance 1e-9', spaces.cfg_pqr(*t), ('sparse2',), 6, grid=2, tol=True)
            sh += mk('d=6,7 (iterative scheme): structured sparse patterns and scalar+bivector, tolerance 1e-9', spaces.cfg_pqr(*t), ('list', 'scalar+biv2'), 1, grid=0, ones=True, tol=True)
        for t in [(5, 0, 0), (2, 3, 0), (4, 0, 0), (4, 0, 1), (3, 1, 0), (1, 4, 0)]:
            sh += mk('d=4,5 (closed forms, exact): all subsets of 2..4 blades of a 7-blade menu mixing grades 0..4', spaces.cfg_pqr(*t), ('list', 'mixed'), 8, grid=0, ones=True)
        for t in [(6, 0, 0), (4, 1, 1), (7, 0, 0), (5, 0, 1), (3, 3, 0)]:
            sh += mk('d=6,7 (iterative scheme): scalar part not stored first', spaces.cfg_pqr(*t), ('list', 'scalar-not-first'), 3, grid=0, ones=True, tol=True)
        for n in ('2DPGA', '3DPGA'):
            sh += mk('named custom bases: subsets <=2 blades x grid', spaces.NAMED[n], ('S', 2), 4, grid=3)
        for t in [(4, 0, 0), (3, 0, 1), (5, 0, 0), (4, 0, 1), (2, 3, 0), (6, 0, 0), (5, 0, 1), (3, 3, 0), (7, 0, 0), (6, 0, 1), (4, 3, 0)]:
            sh += mk('d=4..7: sums of pairwise commuting blades (maximal minimal polynomial), with and without scalar part', spaces.cfg_pqr(*t), ('commuting',), 4, grid=0, ones=True, tol=(sum(t) >= 6))
    for d in (1, 2):
        for order in (spaces.sig(d), list(reversed(spaces.sig(d)))):
            sh.append(dict(stratum='all signature orderings of d<=2 one after the other in one process (two orders)',
                           seq=[mk('seq', spaces.cfg_sig(s), ('S', 2), 1, generic=2, grid=2)[0] for s in order]))
    return sh


def patterns(shard, alg):
    spec = tuple(shard['spec'])
    c = tuple(alg.canon2bin.values())
    g = spaces.grade_of
    if spec[0] == 'sparse2':
        from itertools import combinations
        menu = list(dict.fromkeys([c[0], c[1], c[2], c[alg.d], c[alg.d + 1], c[alg.d + 2], c[len(c) // 2], c[-2], c[-1]]))
        pats = [t for k in (1, 2) for t in combinations(menu, k)]
    elif spec[0] == 'commuting':
        # sums of pairwise commuting blades e1 + e23 + e45 (+ e67): their minimal polynomial has the maximal degree
        # 2^ceil(d/2), so they exercise the full length of the closed forms / of the iterative scheme
        d = alg.d
        blades = [c[1]] + [c[1 + j] ^ c[2 + j] for j in range(1, d - 1, 2)]
        blades = [b for b in blades if b in c]
        pats = [tuple(blades), (0,) + tuple(blades), tuple(reversed(blades))] + ([tuple(blades[:-1])] if len(blades) > 2 else [])
    elif spec[0] == 'list' and spec[1] == 'grades012':
        pats = [tuple(k for k in c if g(k) == j) for j in (0, 1, 2)] + [tuple(k for k in c if g(k) in (0, 2))][:0]
    elif spec[0] == 'list' and spec[1] == 'commuting1':
        d = alg.d
        pats = [tuple([c[1]] + [c[1 + j] ^ c[2 + j] for j in range(1, d - 1, 2)])]
    elif spec[0] == 'list' and spec[1] == 'mixed':
        # every subset of <=4 blades of a menu mixing grades 0..4 (scalar, two vectors, two bivectors, a trivector, a 4-blade)
        from itertools import combinations
        menu = [0, c[1], c[2], c[1] ^ c[2], c[3] ^ c[4], c[1] ^ c[2] ^ c[3], c[1] ^ c[2] ^ c[3] ^ c[4]]
        pats = [t for k in (2, 3, 4) for t in combinations(menu, k)]
    elif spec[0] == 'list' and spec[1] == 'scalar-not-first':
        # operands whose scalar part is not the first stored coefficient
        d = alg.d
        blades = [c[1]] + [c[1 + j] ^ c[2 + j] for j in range(1, d - 1, 2)]
        pats = [(c[1] ^ c[2], 0), (c[1], 0), (c[1], c[2] ^ c[3], 0), (c[2], 0, c[1] ^ c[3]), tuple(reversed((0,) + tuple(blades[:3]))), tuple(blades[:2]) + (0,)]
    elif spec[0] == 'list' and spec[1] == 'scalar+biv2':
        biv = [k for k in c if g(k) == 2]
        pats = [(0, biv[0], biv[-1]), (0, biv[1]), tuple(k for k in c if g(k) == 1)]
    else:
        pats = binprog.expand(spec, alg)
    i, n = shard.get('chunk', (0, 1))
    ch = spaces.chunks(pats, n)
    return ch[i] if i < len(ch) else []


def is_one(refelem, eq):
    for k, v in refelem.items():
        if k == ():
            if not eq(v, 1):
                return False
        elif not eq(v, 0):
            return False
    return () in refelem or eq(0, 1)


def run_shard(shard):
    if 'seq' in shard:
        from ..common import run_sequence
        return run_sequence(run_shard, shard)
    res = Result()
    cfg = shard['cfg']
    alg = make_algebra(cfg)
    ref = ref_from_config(cfg)
    name = cfg_name(cfg)
    tol = shard.get('tol') or alg.d >= 6
    eq = (lambda a, b: close(a, b, 1e-9)) if tol else (lambda a, b: a == b)
    head = f"from fractions import Fraction\nfrom kingdon import Algebra\nalg = {cfg_repro(cfg)}\n"
    for keys in patterns(shard, alg):
        case_shard = dict(shard, spec=['list', [list(keys)]], chunk=(0, 1))
        case = {'shard': case_shard}
        # ---- (i) generic point of the fraction field
        if shard.get('generic') and 0 < len(keys) <= shard['generic']:
            res.evals += 1
            x = gmv(alg, keys, 'x', cls=R)
            repro = head + f"x = alg.multivector(keys={tuple(keys)}, name='x')\nprint(x*x.inv(), x.inv()*x)"
            try:
                xi = x.inv()
                l, _ = mvdict(x * xi)
                r, _ = mvdict(xi * x)
                ok = all((v.isone() if k == 0 else v.iszero()) for k, v in l.items()) and 0 in l and \
                    all((v.isone() if k == 0 else v.iszero()) for k, v in r.items()) and 0 in r
                res.nontrivial += 1 if len(keys) >= 2 else 0
                if not ok:
                    res.violate(violation(f'generic:{len(keys)}', f'{name} keys {keys}: x*inv(x) or inv(x)*x is not 1 as a rational function', case, '1', show(l) + ' / ' + show(r), repro))
                if shard.get('div'):
                    res.evals += 2
                    a = gmv(alg, (alg.canon2bin['e1' if 'e1' in alg.canon2bin else 'e0'], 0), 'a', cls=R)
                    q, _ = mvdict(a / x)
                    w, _ = mvdict(a * xi)
                    if any(not same(q.get(k, 0), w.get(k, 0)) for k in set(q) | set(w)):
                        res.violate(violation('generic:div', f'{name} keys {keys}: a/x != a*inv(x)', case, show(w), show(q), repro))
                    z, _ = mvdict(nmv(alg, (), []) / x)          # an empty numerator is the zero element
                    if any(not iszero(v) for v in z.values()):
                        res.violate(violation('generic:empty-numerator', f'{name} keys {keys}: (empty multivector)/x is not zero', case, '{}', show(z), repro))
                    n1, _ = mvdict(3 / x)
                    n2, _ = mvdict(3 * xi)
                    if any(not same(n1.get(k, 0), n2.get(k, 0)) for k in set(n1) | set(n2)):
                        res.violate(violation('generic:rdiv', f'{name} keys {keys}: 3/x != 3*inv(x)', case, show(n2), show(n1), repro))
            except ZeroDivisionError:
                # must be singular for every value: confirm on three points
                pts = [[Fraction(p + 7 * j + 2, j + 1) for j in range(len(keys))] for p in (1, 5, 11)]
                if any(ref.inverse(mv_to_ref(alg, ref, nmv(alg, keys, pt))) is not None for pt in pts):
                    res.violate(violation('generic:raises', f'{name} keys {keys}: ZeroDivisionError for a generically invertible pattern', case, 'an inverse', 'ZeroDivisionError', repro))
                res.skipped += 1
            except Trap as e:
                res.violate(violation('generic:trap', f'{name} keys {keys}: {e}', case, 'value independent control flow', str(e), repro))
            except Exception as e:
                res.violate(violation('generic:error', f'{name} keys {keys}: {type(e).__name__}: {e}', case, '', repr(e), repro))
        # ---- (i') kingdon's own exact rational-function type as coefficients: inverse of the inverse, x * inv(x) = 1
        if shard.get('generic') and 0 < len(keys) <= 2 and alg.d <= 2:
            from kingdon.polynomial import RationalPolynomial
            from .C17 import form as _form, den as _den
            res.evals += 1
            try:
                xs = alg.multivector(name='x', keys=tuple(keys), symbolcls=RationalPolynomial.fromname)
                xi = xs.inv()
                one, _ = mvdict(xs * xi)
                back, _ = mvdict(xi.inv())
                D = lambda v: _den(_form(v)) if isinstance(v, RationalPolynomial) else R.lift(v)
                ok1 = all((D(v).isone() if k == 0 else D(v).iszero()) for k, v in one.items()) and 0 in one
                orig = dict(zip(xs.keys(), xs.values()))
                ok2 = all(D(back.get(k, 0)).same(D(orig.get(k, 0))) for k in set(back) | set(orig))
                if not ok1 or not ok2:
                    res.violate(violation('ratpoly:inverse', f'{name} keys {keys} with RationalPolynomial coefficients: ' + ('x*inv(x) != 1' if not ok1 else 'inv(inv(x)) != x'), case, '1 / x', show(one) + ' / ' + show(back)))
            except ZeroDivisionError:
                res.skipped += 1
            except Exception as e:
                res.violate(violation('ratpoly:error', f'{name} keys {keys} with RationalPolynomial coefficients: {type(e).__name__}: {e}', case, '', repr(e)))
        # ---- (ii) value grid
        pts = []
        k = len(keys)
        if shard.get('grid') and k <= shard['grid']:
            pts = [list(p) for p in product(GRID, repeat=k)]
        elif shard.get('ones'):
            pts = [[Fraction(1 + (j % 3)) for j in range(k)], [Fraction((-1) ** j * (2 + j % 2)) for j in range(k)]]
        elif shard.get('dense'):
            free = [0, 1, 2, 4, 7][:min(5, k)]
            for p in product([Fraction(-1), Fraction(0), Fraction(2)], repeat=len(free)):
                v = [Fraction(0)] * k
                for i, val in zip(free, p):
                    v[i] = val
                pts.append(v)
        for vals in pts:
            res.evals += 1
            x = nmv(alg, keys, vals)
            rx = mv_to_ref(alg, ref, x)
            repro = head + f"x = alg.multivector(keys={tuple(keys)}, values={vals})\nprint(x.inv(), x*x.inv())"
            try:
                xi = x.inv()
            except ZeroDivisionError:
                if ref.inverse(rx) is not None:
                    res.violate(violation(f'grid:spurious-zerodivision:{len(keys)}', f'{name} keys {keys} values {vals}: ZeroDivisionError although an inverse exists', case,
                                          show(ref.inverse(rx)), 'ZeroDivisionError', repro))
                else:
                    res.skipped += 1
                continue
            except Exception as e:
                res.violate(violation(f'grid:error:{len(keys)}', f'{name} keys {keys} values {vals}: {type(e).__name__}: {e}', case, '', repr(e), repro))
                continue
            ri = mv_to_ref(alg, ref, xi)
            l, r = ref.gp(rx, ri), ref.gp(ri, rx)
            if sum(1 for v in vals if v != 0) >= 2:
                res.nontrivial += 1
            if not (is_one(l, eq) and is_one(r, eq)):
                res.violate(violation(f'grid:not-inverse:{len(keys)}', f'{name} keys {keys} values {vals}: inv() returned but the products are not 1', case, '{(): 1}', f'{l} / {r}', repro))
            elif len(res.samples) < 2 and k >= 2 and all(v != 0 for v in vals):
                res.sample({'config': name, 'keys': list(keys), 'values': [str(v) for v in vals], 'inverse': {str(kk): str(v) for kk, v in ri.items()}})
        # ints through the public API (float path), powers, division by number
        if shard.get('grid') and 0 < k <= 2 and alg.d <= 3:
            for vals in ([2] * k, [1, -3][:k]):
                res.evals += 1
                x = nmv(alg, keys, vals)
                try:
                    xi = x.inv()
                    l = mv_to_ref(alg, ref, x * xi)
                    if not is_one(l, lambda a, b: close(a, b, 1e-9)):
                        res.violate(violation('ints:not-inverse', f'{name} keys {keys} int values {vals}', case, '1', str(l)))
                    p2, _ = mvdict(x ** -2)
                    q2, _ = mvdict(xi * xi)
                    if any(not close(p2.get(kk, 0), q2.get(kk, 0)) for kk in set(p2) | set(q2)):
                        res.violate(violation('pow:negative', f'{name} keys {keys} values {vals}: x**-2 != inv(x)*inv(x)', case, show(q2), show(p2)))
                except ZeroDivisionError:
                    if ref.inverse(mv_to_ref(alg, ref, x)) is not None:
                        res.violate(violation('ints:spurious-zerodivision', f'{name} keys {keys} int values {vals}', case, 'inverse', 'ZeroDivisionError'))
                except Exception as e:
                    res.violate(violation('ints:error', f'{name} keys {keys} int values {vals}: {type(e).__name__}: {e}', case, '', repr(e)))
    return res.asdict()
