"""C06  Sandwich, projection and squared norm equal their defining compositions."""
from .. import spaces, binprog
from ..common import Result, gmv, mvdict, eq_elem, show, cfg_name, cfg_repro
from ..harness import violation
from ..oracle import make_algebra
from ..ring import P, Trap, iszero

PID = 'C06'
LEVEL = 'exploration'
RULE = ('cases = (configuration, operator in sw/proj/normsq, ordered key tuple(s)); the optimised generated function and the literal '
        'composition a*b*~a / (a|b)*~b / a*~a (kingdon\'s own gp, ip, reverse) are both run on the generic point and compared as polynomials; '
        'a blade missing from the optimised result must have an identically zero reference polynomial. distinct = distinct (configuration, '
        'operator, key tuples); non-trivial = the reference composition has a non-zero coefficient.')
ASSUMPTIONS = ['the elementary operators gp, ip, reverse are the ones decided by C02-C04']
BOUNDS = {
    'quick': 'sig(d) d<=2: ordered tuples <=2 blades and all canonical subsets; d=3: 4 configurations x canonical subsets <=2 blades; normsq: T(2), S(3)',
    'thorough': 'sig(2): ordered tuples <=3 blades; sig(3): subsets <=2 blades and grade blocks; 4 pqr(3): subsets <=3 blades; d=4: small grade blocks '
                '(6 configurations); d=5: rotor/vector/bivector blocks; normsq: S(3) all orderings, grade blocks d<=5',
}


def shards(tier, seed):
    mk = binprog.mk
    sh = []
    for d in (0, 1, 2):
        for s in spaces.sig(d):
            c = spaces.cfg_sig(s)
            if tier == 'quick':
                sh += mk('d<=2 all orderings: ordered tuples of <=2 blades; all canonical subsets', c, ('T', 2), ('T', 2), 2 if d == 2 else 1, kind='bin')
                sh += mk('d<=2 all orderings: ordered tuples of <=2 blades; all canonical subsets', c, ('S', None), ('S', None), 2 if d == 2 else 1, kind='bin')
            else:
                sh += mk('d<=2 all orderings: ordered tuples of <=3 blades; all canonical subsets', c, ('T', 3), ('T', 3), 8 if d == 2 else 1, kind='bin')
                sh += mk('d<=2 all orderings: ordered tuples of <=3 blades; all canonical subsets', c, ('S', None), ('S', None), 2 if d == 2 else 1, kind='bin')
            sh += mk('normsq: all ordered tuples d<=2', c, ('T', None), ('B',), 1, kind='un')
    d3 = [spaces.cfg_pqr(3, 0, 0), spaces.cfg_pqr(2, 0, 1), spaces.cfg_pqr(1, 1, 1), spaces.cfg_sig([-1, 0, 1])]
    # the symbolic filter switched off (simp_func=None is a supported option): identically vanishing blades stay in the generated function
    for c in [spaces.cfg_pqr(3, 0, 0), spaces.cfg_pqr(2, 0, 1), spaces.cfg_pqr(2, 0, 0)]:
        sh += mk('simp_func=None: subsets of <=2 blades and grade blocks', c, ('S', 2), ('S', 2), 4, kind='bin', alg_options={'simp_func': None})
        sh += mk('simp_func=None: subsets of <=2 blades and grade blocks', c, ('G',), ('G',), 2, kind='bin', alg_options={'simp_func': None})
        sh += mk('simp_func=None: subsets of <=2 blades and grade blocks', c, ('G',), ('B',), 1, kind='un', alg_options={'simp_func': None})
    if tier == 'quick':
        for c in [spaces.cfg_pqr(4, 0, 0), spaces.cfg_pqr(3, 0, 1)]:
            # pure-parity operands that are not versors (general bivector, even element, vector+trivector) against single-grade operands
            sh += mk('d=4: non-versor pure-parity operands x single grade blocks', c, ('list', 'parity4'), ('list', 'single4'), 4, kind='bin')
        for c in [spaces.cfg_pqr(5, 0, 0), spaces.cfg_pqr(4, 0, 1)]:
            sh += mk('d=5: mixed-parity operands (vector+bivector, scalar+vector) x bivector / scalar+vector+bivector / vector (results with more than 16 blades)',
                     c, ('list', 'mixed5'), ('list', 'mixed5r'), 2, kind='bin')
        for c in d3:
            sh += mk('d=3: canonical subsets of <=2 blades (4 configurations)', c, ('S', 2), ('S', 2), 6, kind='bin')
            sh += mk('normsq: all 256 canonical subsets d=3', c, ('S', None), ('B',), 4, kind='un')
    else:
        for s in spaces.sig(3):
            c = spaces.cfg_sig(s)
            sh += mk('d=3 all 27 orderings: subsets <=2 blades, grade blocks', c, ('S', 2), ('S', 2), 4, kind='bin')
            sh += mk('d=3 all 27 orderings: subsets <=2 blades, grade blocks', c, ('G',), ('G',), 8, kind='bin')
            sh += mk('normsq: all 256 canonical subsets d=3, all orderings', c, ('S', None), ('B',), 4, kind='un')
        for c in d3:
            sh += mk('d=3: subsets of <=3 blades (4 configurations)', c, ('S', 3), ('S', 3), 31, kind='bin')
        for c in [spaces.cfg_pqr(*t) for t in [(4, 0, 0), (3, 0, 1), (3, 1, 0), (1, 1, 2)]] + [spaces.cfg_sig(s) for s in spaces.mixed_orderings(4)[:2]]:
            sh += mk('d=4: small grade blocks', c, ('Gsmall',), ('Gsmall',), 8, kind='bin')
            sh += mk('normsq: grade blocks d=4,5', c, ('G',), ('B',), 4, kind='un')
        for c in [spaces.cfg_pqr(5, 0, 0), spaces.cfg_pqr(4, 1, 0), spaces.cfg_pqr(4, 0, 1)]:
            sh += mk('d=5: rotor / vector / bivector blocks', c, ('list', 'even-vec-biv'), ('list', 'even-vec-biv'), 3, kind='bin')
            sh += mk('normsq: grade blocks d=4,5', c, ('Gsmall',), ('B',), 2, kind='un')
        for n in ('2DPGA', '3DPGA'):
            sh += mk('named custom bases: subsets <=2 blades', spaces.NAMED[n], ('S', 2), ('S', 2), 8, kind='bin')
    # cross-algebra histories: all signature orderings of one dimension in ONE process, forward and backward
    for d in (1, 2):
        for order in (spaces.sig(d), list(reversed(spaces.sig(d)))):
            sh.append(dict(stratum='all signature orderings of d<=2 one after the other in one process (two orders), subsets <=2 blades',
                           seq=[binprog.mk('seq', spaces.cfg_sig(s), ('S', 2), ('S', 2), 1, kind='bin')[0] for s in order]))
    for d in (1, 2):
        for order in (spaces.sig(d), list(reversed(spaces.sig(d)))):
            sh.append(dict(stratum='all signature orderings of d<=2 one after the other in one process (two orders), subsets <=2 blades',
                           seq=[binprog.mk('seq', spaces.cfg_sig(s), ('S', None), ('B',), 1, kind='un')[0] for s in order]))
    return sh


def _expand_special(shard, alg):
    for side in ('left', 'right'):
        sp = shard[side]
        if sp[0] == 'list' and sp[1] in ('parity4', 'single4'):
            c = tuple(alg.canon2bin.values())
            g = spaces.grade_of
            blk = lambda *gs: [k for k in c if g(k) in gs]
            if sp[1] == 'parity4':
                shard[side] = ['list', [blk(2), blk(0, 2), blk(1, 3), [c[5], c[10]]]]
            else:
                shard[side] = ['list', [blk(0), blk(1), blk(alg.d), blk(alg.d - 1)]]
        if sp[0] == 'list' and sp[1] in ('mixed5', 'mixed5r'):
            # mixed-parity operands in d=5: the results store more than 16 blades
            c = tuple(alg.canon2bin.values())
            g = spaces.grade_of
            blk = lambda *gs: [k for k in c if g(k) in gs]
            shard[side] = ['list', [blk(1, 2), blk(0, 1)] if sp[1] == 'mixed5' else [blk(2), blk(0, 1, 2), blk(1)]]
        if sp[0] == 'list' and sp[1] == 'even-vec-biv':
            c = tuple(alg.canon2bin.values())
            g = spaces.grade_of
            shard[side] = ['list', [[k for k in c if g(k) in (0, 2)], [k for k in c if g(k) == 1], [k for k in c if g(k) == 2]]]
    return shard


def run_shard(shard):
    if 'seq' in shard:
        from ..common import run_sequence
        return run_sequence(run_shard, shard)
    res = Result()
    cfg = shard['cfg']
    alg = make_algebra(cfg, **shard.get('alg_options', {}))
    shard = _expand_special(dict(shard), alg)
    name = cfg_name(cfg)
    head = f"from kingdon import Algebra\nalg = {cfg_repro(cfg)}\n"

    def compare(op, keys_desc, case, opt_thunk, lit_thunk, repro):
        res.evals += 1
        try:
            lit, _ = mvdict(lit_thunk())
        except Exception as e:
            res.violate(violation(f'{op}:literal-raises', f'{name} {op} {keys_desc}: the literal composition raises {type(e).__name__}: {e}', case, '', repr(e), repro))
            return
        nz = {k for k, v in lit.items() if not iszero(v)}
        if nz:
            res.nontrivial += 1
        try:
            got, dup = mvdict(opt_thunk())
        except Trap as e:
            res.violate(violation(f'{op}:trap', f'{name} {op} {keys_desc}: {e}', case, 'value independent control flow', str(e), repro))
            return
        except Exception as e:
            res.violate(violation(f'{op}:raises', f'{name} {op} {keys_desc} raises {type(e).__name__}: {e}', case, show(lit), repr(e), repro))
            return
        bad = eq_elem(got, lit)
        missing = sorted(nz - set(got))
        if bad or dup or missing:
            what = f'blade(s) {missing} with non-zero coefficient dropped' if missing and not bad else f'wrong coefficient on blades {bad}'
            res.violate(violation(f'{op}:{"dropped" if missing and not bad else "value"}', f'{name} {op} {keys_desc}: {what}', case, show(lit), show(got), repro))
        elif len(res.samples) < 2 and len(nz) >= 2:
            res.sample({'config': name, 'op': op, 'keys': keys_desc, 'reference_blades': sorted(nz)})

    if shard['kind'] == 'un':
        for ka, _ in binprog.pairs({**shard, 'diag': True}, alg):
            a = gmv(alg, ka, 'a')
            case = {'shard': dict(stratum=shard['stratum'], cfg=cfg, kind='un', left=['list', [list(ka)]], right=['B'], chunk=(0, 1), alg_options=shard.get('alg_options', {}))}
            compare('normsq', f'{tuple(ka)}', case, lambda: a.normsq(), lambda: a * ~a,
                    head + f"a = alg.multivector(keys={tuple(ka)}, name='a')\nprint(a.normsq(), a*~a)")
    else:
        for ka, kb in binprog.pairs(shard, alg):
            a, b = gmv(alg, ka, 'a'), gmv(alg, kb, 'b')
            case = {'shard': dict(stratum=shard['stratum'], cfg=cfg, kind='bin', left=['list', [list(ka)]], right=['list', [list(kb)]], chunk=(0, 1), alg_options=shard.get('alg_options', {}))}
            mvs = f"a = alg.multivector(keys={tuple(ka)}, name='a'); b = alg.multivector(keys={tuple(kb)}, name='b')\n"
            compare('sw', f'{tuple(ka)} >> {tuple(kb)}', case, lambda: a >> b, lambda: a * b * ~a, head + mvs + 'print(a >> b, a*b*~a)')
            compare('proj', f'{tuple(ka)} @ {tuple(kb)}', case, lambda: a @ b, lambda: (a | b) * ~b, head + mvs + 'print(a @ b, (a|b)*~b)')
    return res.asdict()
