"""C16  Array coefficients, sequences, callables and plain numbers broadcast right."""
import functools
from fractions import Fraction
from itertools import product

from ..common import Result, close
from ..harness import violation

PID = 'C16'
LEVEL = 'exploration'
INFIX = {'*': 'gp', '|': 'ip', '^': 'op', '&': 'rp', '>>': 'sw', '@': 'proj', '+': 'add', '-': 'sub', '/': 'div'}
METHODS = ['gp', 'sw', 'cp', 'acp', 'ip', 'sp', 'lc', 'rc', 'op', 'rp', 'proj', 'add', 'sub', 'div']
UNARY = ['neg', 'reverse', 'involute', 'conjugate', 'inv', 'normsq', 'hodge', 'unhodge', 'polarity', 'outerexp', 'outersin']
RULE = ('(a) operand kinds: every infix operator x every pair (left kind, right kind) with at least one multivector among {int, float, Fraction, numpy.float64, '
        'numpy 0-d array, multivector, list, tuple, nested list, nullary callable, callable returning callable, callable returning list}; oracle = the named '
        'operator applied to the resolved operands in the written order (numbers as scalar multivectors, sequences mapped element-wise keeping their type, '
        'callables called). (b) broadcasting: every operator x trailing shapes x container kinds x index expressions: op(X,Y)[idx] == op(X[idx],Y[idx]). '
        '(c) __setitem__: every index expression x value kind, before/after snapshots of every coefficient entry. distinct = distinct (operator, kinds / shape, '
        'container, index); non-trivial = operands do not commute under the operator or the index selects a proper part.')
ASSUMPTIONS = ['the named operator on two plain multivectors is the reference (decided by C02-C08)', 'both operands being sequences is not judged (not specified)']
BOUNDS = {'quick': 'Algebra(2,0,1) and Algebra(3): 9 infix operators x 12x12 operand kinds; broadcasting: 25 operators x shapes {(3,),(2,3),(1,)} x 3 containers x all index '
                   'expressions up to rank; setitem: all index expressions x 3 value kinds x 2 containers',
          'thorough': 'adds Algebra(2), Algebra(1,1,1), mixed containers on the two sides, 14 methods with sequence/callable operands, shapes (2,1,2)'}

F = Fraction


def shards(tier, seed):
    algs = [(2, 0, 1), (3, 0, 0)] if tier == 'quick' else [(2, 0, 1), (3, 0, 0), (2, 0, 0), (1, 1, 1)]
    sh = []
    for a in algs:
        for op in INFIX:
            sh.append(dict(stratum='operand kinds on either side of every infix operator', alg=a, kind='kinds', op=op, methods=(tier == 'thorough')))
        shapes = [(3,), (2, 3), (1,)] + ([(2, 1, 2)] if tier == 'thorough' else [])
        for shp in shapes:
            for cont in ('ndarray', 'list', 'tuple'):
                sh.append(dict(stratum='broadcasting: op(X,Y)[idx] == op(X[idx],Y[idx])', alg=a, kind='bcast', shape=shp, cont=cont,
                               cont2=('ndarray' if tier == 'quick' else 'list')))
        for cont in ('ndarray', 'list'):
            for shp in shapes[:2]:
                sh.append(dict(stratum='__setitem__ touches exactly the addressed entries', alg=a, kind='setitem', shape=shp, cont=cont))
    return sh


def elem(v):
    """Nested structure of {key: value} dicts for comparison."""
    from kingdon import MultiVector
    if isinstance(v, MultiVector):
        d = {}
        for k, x in v.items():
            d[k] = d[k] + x if k in d else x
        return ('mv', d)
    if isinstance(v, (list, tuple)):
        return (type(v).__name__, [elem(x) for x in v])
    return ('other', v)


def same_struct(a, b):
    if a[0] != b[0]:
        return False
    if a[0] == 'mv':
        return all(close(a[1].get(k, 0), b[1].get(k, 0), 1e-9) for k in set(a[1]) | set(b[1]))
    if a[0] in ('list', 'tuple'):
        return len(a[1]) == len(b[1]) and all(same_struct(x, y) for x, y in zip(a[1], b[1]))
    return False


def _first(v):
    return v


class _Const:
    def __init__(self, v):
        self.v = v

    def __call__(self):
        return self.v

    def get(self):
        return self.v


def run_kinds(shard, res):
    import numpy as np
    from kingdon import Algebra, MultiVector
    alg = Algebra(*shard['alg'])
    c = list(alg.canon2bin.values())
    n = len(c)
    # non-commuting multivector operands
    hi = c[n - 2] if n > 4 else c[n - 1]          # keys must be distinct also in two dimensions
    X = alg.multivector(keys=(c[1], hi), values=[F(2), F(3)])
    Y = alg.multivector(keys=(c[2], hi, c[0]), values=[F(5), F(-1), F(1, 2)])
    Z = alg.multivector(keys=(c[0], c[n - 1]), values=[F(3), F(7)])
    kinds = {
        'int': lambda: 3, 'float': lambda: 2.5, 'Fraction': lambda: F(7, 2), 'np.float64': lambda: np.float64(1.5), 'np0d': lambda: np.array(2.0),
        'mvX': lambda: X, 'mvY': lambda: Y, 'list': lambda: [Y, Z], 'tuple': lambda: (Z, Y), 'nested': lambda: [[Y], [Z, Y]],
        'callable': lambda: (lambda: Y), 'callable2': lambda: (lambda: (lambda: Z)), 'callable-list': lambda: (lambda: [Z, Y]),
        'callable-number': lambda: (lambda: 4),
        # callables that are not plain python functions
        'partial': lambda: functools.partial(_first, Y), 'callable-object': lambda: _Const(Z), 'bound-method': lambda: _Const(Y).get,
        'lambda-returning-partial': lambda: (lambda: functools.partial(_first, Z)), 'partial-returning-lambda': lambda: functools.partial(_first, lambda: Y),
    }
    ismv = {'mvX', 'mvY'}
    seq = {'list', 'tuple', 'nested', 'callable-list'}

    def resolve(v):
        while callable(v) and not isinstance(v, MultiVector):
            v = v()
        return v

    def reference(opname, L, R):
        L, R = resolve(L), resolve(R)
        if isinstance(R, (list, tuple)):
            return type(R)(reference(opname, L, r) for r in R)
        if isinstance(L, (list, tuple)):
            return type(L)(reference(opname, l, R) for l in L)
        Lm = L if isinstance(L, MultiVector) else MultiVector.fromkeysvalues(alg, (0,), [L])
        Rm = R if isinstance(R, MultiVector) else MultiVector.fromkeysvalues(alg, (0,), [R])
        return getattr(alg, opname)(Lm, Rm)
    sym = shard['op']
    opname = INFIX[sym]
    import operator as _o
    pyop = {'*': _o.mul, '|': _o.or_, '^': _o.xor, '&': _o.and_, '>>': _o.rshift, '@': _o.matmul, '+': _o.add, '-': _o.sub, '/': _o.truediv}[sym]
    for lk, rk in product(kinds, repeat=2):
        if lk not in ismv and rk not in ismv:
            continue          # at least one operand must be a multivector for kingdon to be involved
        if lk in seq and rk in seq:
            continue
        if lk == 'np0d':
            continue          # an ndarray on the left is dispatched by numpy, not by kingdon; it is not a 'plain number' (numpy scalars are covered by np.float64)
        res.evals += 1
        L, R = kinds[lk](), kinds[rk]()
        case = {'shard': shard, 'lk': lk, 'rk': rk}
        try:
            want = elem(reference(opname, L, R))
        except Exception:
            res.skipped += 1
            continue
        res.nontrivial += 1
        form = 'reflected' if lk not in ismv else 'normal'
        repro = f"# Algebra{shard['alg']}: ({lk}) {sym} ({rk}); see kverif/props/C16.py run_kinds for the operand values"
        try:
            got = elem(pyop(L, R))
        except Exception as e:
            res.violate(violation(f'infix:{sym}:{form}:{lk if lk not in ismv else rk}:raises', f'({lk}) {sym} ({rk}) raises {type(e).__name__}: {e}', case, str(want)[:300], repr(e), repro))
            continue
        if not same_struct(got, want):
            other = lk if lk not in ismv else rk
            res.violate(violation(f'infix:{sym}:{form}:{other}', f'Algebra{tuple(shard["alg"])}: ({lk}) {sym} ({rk}) differs from {opname}(left, right)', case, str(want)[:400], str(got)[:400], repro))
        elif len(res.samples) < 1 and lk == 'list':
            res.sample({'alg': shard['alg'], 'expression': f'[Y, Z] {sym} X', 'result_type': got[0]})
        # the method form with the same operands (thorough)
        if shard.get('methods') and lk in ismv:
            for m in METHODS:
                res.evals += 1
                try:
                    w = elem(reference(m, L, R))
                except Exception:
                    continue
                try:
                    g = elem(getattr(L, m)(R))
                    if not same_struct(g, w):
                        res.violate(violation(f'method:{m}:{rk}', f'X.{m}({rk}) differs from the resolved operands', case, str(w)[:300], str(g)[:300], repro))
                except Exception as e:
                    res.violate(violation(f'method:{m}:{rk}:raises', f'X.{m}({rk}) raises {type(e).__name__}', case, str(w)[:300], repr(e), repro))


def index_exprs(shape):
    r = len(shape)
    one = [0, -1, slice(None), slice(0, 2), slice(1, None), slice(None, None, 2), Ellipsis]
    out = list(one)
    if r >= 2:
        out += [(0, 1), (-1, slice(0, 2)), (slice(None), 1), (Ellipsis, 0), (slice(0, 1), slice(1, 3)), (1, Ellipsis), (slice(None), -1)]
        # negative integers behind an Ellipsis / a new axis (they count from the end of *their* axis)
        out += [(Ellipsis, -1), (None, -1), (None, -1, -2), (Ellipsis, -2), (-1, None, -1)]
    if r >= 3:
        out += [(0, 0, 1), (Ellipsis, 1), (1, slice(None), 0)]
    # list / ndarray / boolean (fancy) indices select along the first trailing axis
    import numpy as np
    out += [[0, -1], [0], np.array([0, shape[0] - 1]), [True] + [False] * (shape[0] - 1)]
    if r >= 2:
        out += [([0, 1], 1), (slice(None), [0, -1])]
    good = []
    probe = np.zeros(shape)
    for ix in out:
        try:
            probe[ix]
            good.append(ix)
        except Exception:
            pass
    return good


def container(alg, keys, arr, cont):
    """arr: ndarray of shape (len(keys), *trailing)."""
    from kingdon import MultiVector
    if cont == 'ndarray':
        vals = arr.copy()
    elif cont == 'list':
        vals = [arr[i].copy() for i in range(len(keys))]
    else:
        vals = tuple(arr[i].copy() for i in range(len(keys)))
    return MultiVector.fromkeysvalues(alg, tuple(keys), vals)


def run_bcast(shard, res):
    import numpy as np
    from kingdon import Algebra
    alg = Algebra(*shard['alg'])
    c = list(alg.canon2bin.values())
    n = len(c)
    shape = tuple(shard['shape'])
    hi = c[n - 2] if n > 4 else c[n - 1]
    kx, ky = (c[1], hi, c[0]), (c[2], hi)
    rng = np.arange(1, 1 + len(kx) * int(np.prod(shape)), dtype=float).reshape((len(kx),) + shape)
    ax = 1.0 + rng / 7.0
    ay = 2.0 - np.arange(1, 1 + len(ky) * int(np.prod(shape)), dtype=float).reshape((len(ky),) + shape) / 5.0
    X = container(alg, kx, ax, shard['cont'])
    Y = container(alg, ky, ay, shard['cont2'])
    idxs = index_exprs(shape)
    case = {'shard': shard}

    def cmp(opdesc, whole, thunk_part, ix):
        res.evals += 1
        res.nontrivial += 1
        try:
            a = whole[ix]
            b = thunk_part()
        except Exception as e:
            res.violate(violation(f'bcast:{opdesc}:raises', f'Algebra{tuple(shard["alg"])} {opdesc} shape {shape} {shard["cont"]} index {ix!r}: {type(e).__name__}: {e}', case, '', repr(e)))
            return
        da, db = dict(zip(a.keys(), a.values())), dict(zip(b.keys(), b.values()))
        for k in set(da) | set(db):
            va, vb = da.get(k, 0), db.get(k, 0)
            if not np.allclose(np.asarray(va, dtype=float), np.asarray(vb, dtype=float), rtol=1e-9, atol=1e-12) or np.shape(va) != np.shape(vb):
                res.violate(violation(f'bcast:{opdesc}', f'Algebra{tuple(shard["alg"])} {opdesc} shape {shape} {shard["cont"]}: op(X,Y)[{ix!r}] != op(X[{ix!r}],Y[{ix!r}]) on blade {k}', case, str(vb)[:200], str(va)[:200]))
                return
    # shape of a slice (the parent's shape and itermv() are looked at first: nothing cached on the parent may leak into the slice)
    X.shape
    list(X.itermv())[:1]
    for ix in idxs:
        res.evals += 1
        sel = ix if isinstance(ix, tuple) else (ix,)
        want_shape = (len(kx),) + ax[(slice(None),) + sel].shape[1:]
        try:
            got_shape = tuple(X[ix].shape)
            n_items = len(list(X[ix].itermv())) if len(want_shape) > 1 else 1
            want_items = int(np.prod(want_shape[1:])) if len(want_shape) > 1 else 1
        except Exception as e:
            res.violate(violation('slice-shape:raises', f'Algebra{tuple(shard["alg"])} X[{ix!r}].shape / itermv() ({shard["cont"]}, shape {shape}): {type(e).__name__}: {e}', case, str(want_shape), repr(e)))
            continue
        # the selected coefficients themselves, against numpy's indexing of the coefficient array
        try:
            sub = ax[(slice(None),) + sel]
            gotv = np.array([np.asarray(v, dtype=float) for v in X[ix].values()])
            if gotv.shape != sub.shape or not np.array_equal(gotv, sub):
                res.violate(violation('getitem', f'Algebra{tuple(shard["alg"])} X[{ix!r}] ({shard["cont"]}, shape {shape}) does not hold the addressed coefficients', case,
                                      str(sub.tolist())[:300], str(gotv.tolist())[:300]))
                continue
        except Exception as e:
            res.violate(violation('getitem:raises', f'Algebra{tuple(shard["alg"])} X[{ix!r}] ({shard["cont"]}, shape {shape}): {type(e).__name__}: {e}', case, '', repr(e)))
            continue
        if got_shape != want_shape or n_items != want_items:
            res.violate(violation('slice-shape', f'Algebra{tuple(shard["alg"])} X[{ix!r}] ({shard["cont"]}, shape {shape}) reports shape {got_shape} and yields {n_items} multivectors', case,
                                  f'{want_shape}, {want_items} multivectors', f'{got_shape}, {n_items}'))
    for m in METHODS:
        try:
            whole = getattr(X, m)(Y)
        except Exception as e:
            res.evals += 1
            res.violate(violation(f'bcast:{m}:raises', f'Algebra{tuple(shard["alg"])} X.{m}(Y) with array coefficients {shape} {shard["cont"]}/{shard["cont2"]}: {type(e).__name__}: {e}', case, '', repr(e)))
            continue
        for ix in idxs:
            cmp(m, whole, lambda: getattr(X[ix], m)(Y[ix]), ix)
    for u in UNARY:
        try:
            whole = getattr(X, u)()
        except ZeroDivisionError:
            continue
        except Exception as e:
            res.evals += 1
            res.violate(violation(f'bcast:{u}:raises', f'Algebra{tuple(shard["alg"])} X.{u}() with array coefficients {shape} {shard["cont"]}: {type(e).__name__}: {e}', case, '', repr(e)))
            continue
        for ix in idxs:
            cmp(u, whole, lambda: getattr(X[ix], u)(), ix)
    # itermv / shape consistency
    res.evals += 1
    try:
        items = list(X.itermv())
        want_n = int(np.prod(shape))
        flat = ax.reshape(len(kx), -1)
        ok = len(items) == want_n and all(np.allclose(np.array(list(it.values()), dtype=float), flat[:, j]) for j, it in enumerate(items))
        if not ok or tuple(X.shape) != (len(kx),) + shape:
            res.violate(violation('itermv', f'itermv()/shape of array valued multivector {shape} {shard["cont"]}', case, f'{want_n} multivectors in C order', f'{len(items)} / shape {X.shape}'))
    except Exception as e:
        res.violate(violation('itermv:raises', f'itermv() raises {type(e).__name__}: {e}', case, '', repr(e)))
    res.sample({'alg': shard['alg'], 'shape': list(shape), 'containers': [shard['cont'], shard['cont2']], 'index_expressions': [repr(i) for i in idxs]})


def run_setitem(shard, res):
    import numpy as np
    from kingdon import Algebra
    alg = Algebra(*shard['alg'])
    c = list(alg.canon2bin.values())
    n = len(c)
    shape = tuple(shard['shape'])
    kx = (c[1], c[n - 2] if n > 4 else c[n - 1], c[0])
    base = np.arange(1, 1 + len(kx) * int(np.prod(shape)), dtype=float).reshape((len(kx),) + shape)
    case = {'shard': shard}
    for ix in index_exprs(shape):
        sub = base[(slice(None),) + (ix if isinstance(ix, tuple) else (ix,))]
        for vk in ('mv', 'scalars', 'arrays'):
            res.evals += 1
            res.nontrivial += 1
            X = container(alg, kx, base, shard['cont'])
            if vk == 'mv':
                new = -100.0 - sub
                val = container(alg, kx, new, shard['cont'])
            elif vk == 'scalars':
                new = np.stack([np.full(sub.shape[1:], -(j + 1.0)) for j in range(len(kx))]) if sub.ndim > 1 else np.array([-(j + 1.0) for j in range(len(kx))])
                val = [-(j + 1.0) for j in range(len(kx))]
                if shard['cont'] == 'ndarray':
                    # a sequence of scalars is only broadcastable along the blade axis for list-backed multivectors
                    val = new
            else:
                new = -200.0 - 2 * sub
                val = [new[j] for j in range(len(kx))] if shard['cont'] == 'list' else new
            expect = base.copy()
            expect[(slice(None),) + (ix if isinstance(ix, tuple) else (ix,))] = new
            try:
                X[ix] = val
                got = np.array([np.asarray(v, dtype=float) for v in X.values()])
            except Exception as e:
                res.violate(violation(f'setitem:{vk}:raises', f'Algebra{tuple(shard["alg"])} X[{ix!r}] = <{vk}> ({shard["cont"]}, shape {shape}): {type(e).__name__}: {e}', case, '', repr(e)))
                continue
            if got.shape != expect.shape or not np.array_equal(got, expect):
                res.violate(violation(f'setitem:{vk}', f'Algebra{tuple(shard["alg"])} X[{ix!r}] = <{vk}> ({shard["cont"]}, shape {shape}) did not change exactly the addressed entries', case,
                                      str(expect.tolist())[:300], str(got.tolist())[:300]))
    # setitem with a multivector of different keys must raise
    res.evals += 1
    X = container(alg, kx, base, shard['cont'])
    try:
        X[0] = container(alg, (c[1], c[2], c[0]), base, shard['cont'])[0]
        res.violate(violation('setitem:foreign-keys-accepted', 'setitem with a multivector of different keys accepted', case, 'ValueError', 'accepted'))
    except Exception:
        pass
    # setitem with a multivector holding the same blades in another key order: refused, or assigned blade by blade - never positionally
    for ix in index_exprs(shape)[:4]:
        res.evals += 1
        X = container(alg, kx, base, shard['cont'])
        perm = (kx[2], kx[0], kx[1])
        newvals = -300.0 - np.arange(len(kx) * int(np.prod(shape)), dtype=float).reshape((len(kx),) + shape)
        Zfull = container(alg, perm, newvals, shard['cont'])
        sel = (ix if isinstance(ix, tuple) else (ix,))
        try:
            X[ix] = Zfull[ix]
        except Exception:
            continue
        got = np.array([np.asarray(v, dtype=float) for v in X.values()])
        expect = base.copy()
        for j, k in enumerate(kx):
            expect[(j,) + sel] = newvals[(perm.index(k),) + sel]
        if not np.array_equal(got, expect):
            res.violate(violation('setitem:permuted-keys-positional', f'Algebra{tuple(shard["alg"])} X[{ix!r}] = <multivector with the same blades in another key order> '
                                  f'({shard["cont"]}, shape {shape}) was accepted and assigned positionally', case, str(expect.tolist())[:300], str(got.tolist())[:300]))
    res.sample({'alg': shard['alg'], 'shape': list(shape), 'container': shard['cont'], 'value_kinds': ['mv', 'scalars', 'arrays']})


def run_shard(shard):
    res = Result()
    {'kinds': run_kinds, 'bcast': run_bcast, 'setitem': run_setitem}[shard['kind']](shard, res)
    return res.asdict()
