"""C04  add, sub, neg, involutions and grade selection act blade-wise."""
from itertools import combinations

from .. import spaces, binprog
from ..common import nmv, Result, gmv, mvdict, eq_elem, show, cfg_name, cfg_repro
from ..harness import violation
from ..oracle import make_algebra, ref_from_config
from ..ring import P, Trap, iszero, same

PID = 'C04'
LEVEL = 'exploration'
RULE = ('cases = (configuration, operator, key tuple(s)[, grade selection]) on the generic point, enumerated completely per '
        'stratum; distinct = distinct (configuration, operator, key tuples, selection); non-trivial = the reference result '
        'is non-zero and (for involutions) at least one coefficient changes sign or (binary) the operands overlap or differ.')
ASSUMPTIONS = ['grade of a blade = length of the oracle word of its name']
BOUNDS = {
    'quick': 'add/sub: T(d)xT(d) complete d<=2, d=3 subsets <=2 blades; unary: T(2), S(3), grade blocks d<=6, single blades d<=8; '
             'grade(): all selections x S(3) and grade blocks d<=5; (anti)automorphism laws: d<=3 subsets <=2 blades',
    'thorough': 'quick + add/sub d=3 subsets <=3 blades and all 256 subsets vs empty/full, permuted tuples <=3 blades; unary S(4) complete '
                '(65536 patterns); morphism laws subsets <=3 blades d=3, grade blocks d=4; custom bases',
}
UNARY = ('neg', 'reverse', 'involute', 'conjugate')


def shards(tier, seed):
    mk = binprog.mk
    sh = []
    for d in (0, 1, 2):
        sh += mk('add/sub: T(d) x T(d) complete, d<=2', spaces.cfg_pqr(d, 0, 0), ('T', None), ('T', None), 8 if d == 2 else 1, kind='bin')
    sh += mk('add/sub: T(d) x T(d) complete, d<=2', spaces.NAMED['2DPGA'], ('S', 2), ('S', 2), 2, kind='bin')
    sh += mk('add/sub: d=3 canonical subsets', spaces.cfg_pqr(3, 0, 0), ('S', 2), ('S', 2), 4, kind='bin')
    for cfg, spec, n in [(spaces.cfg_pqr(2, 0, 0), ('T', None), 1), (spaces.cfg_pqr(1, 1, 1), ('S', None), 2),
                         (spaces.cfg_sig([0, -1]), ('T', None), 1), (spaces.NAMED['3DPGA'], ('G',), 1)]:
        sh += mk('unary neg/reverse/involute/conjugate + twice = identity: T(2), S(3), grade blocks', cfg, spec, ('B',), n, kind='unary')
    for d in range(0, 7):
        sh += mk('unary: grade blocks d<=6', spaces.cfg_pqr(d, 0, 0) if d % 2 else spaces.cfg_pqr(max(d - 1, 0), 0, min(d, 1)), ('G',), ('B',), 2 if d > 4 else 1, kind='unary')
    for d in (7, 8):
        sh += mk('unary: single blades d=7,8', spaces.cfg_pqr(d, 0, 0), ('B',), ('B',), 4, kind='unary')
    sh += mk('grade(): every grade selection in both call forms', spaces.cfg_pqr(3, 0, 0), ('S', None), ('B',), 4, kind='grade')
    sh += mk('grade(): every grade selection in both call forms', spaces.cfg_pqr(2, 0, 0), ('T', None), ('B',), 1, kind='grade')
    for d in (4, 5):
        sh += mk('grade(): every grade selection in both call forms', spaces.cfg_pqr(d - 1, 0, 1), ('G',), ('B',), 2, kind='grade')
    for t in [(2, 0, 0), (1, 1, 0), (3, 0, 0), (2, 0, 1), (1, 1, 1)]:
        sh += mk('reverse/conjugate antiautomorphism, involute automorphism of kingdon\'s gp', spaces.cfg_pqr(*t),
                 ('S', 2), ('S', 2), 3, kind='morph')
    # graded algebras: operands that store part of a grade (as results of filter() and, with a null generator, of products do).
    # Only grade() is asked: the generated unary operators refuse such operands in graded mode (consequence of finding F6, see C13).
    for t, spec in [((3, 0, 0), ('S', None)), ((2, 0, 1), ('S', None)), ((2, 0, 0), ('T', None))]:
        sh += mk('graded=True: grade() on operands storing incomplete grades (all subsets d=3, all ordered tuples d=2)',
                 {**spaces.cfg_pqr(*t), 'options': {'graded': True}}, spec, ('B',), 2, kind='grade')
    # numbers as the other operand: coefficient containers x number kinds, the scalar blade stored or not
    for t in [(2, 0, 0), (1, 0, 1)]:
        sh += mk('mv +/- number and number +/- mv: {list,int ndarray,float ndarray,2-d int ndarray,Fraction} coefficients x {int,float,complex,Fraction,bool} numbers',
                 spaces.cfg_pqr(*t), ('T', 3), ('B',), 1, kind='num')
    if tier == 'thorough':
        sh += mk('add/sub: d=3 subsets <=3 blades', spaces.cfg_pqr(2, 0, 1), ('S', 3), ('S', 3), 16, kind='bin')
        sh += mk('add/sub: d=3 all 256 subsets vs empty and full', spaces.cfg_pqr(3, 0, 0), ('S', None), ('list', [[], list(range(8)), [0, 1, 2, 4, 3, 5, 6, 7]]), 4, kind='bin')
        sh += mk('add/sub: d=3 ordered tuples <=3 blades vs ordered tuples <=1', spaces.cfg_pqr(3, 0, 0), ('T', 3), ('T', 1), 8, kind='bin')
        sh += mk('add/sub: d=3 ordered tuples <=2 blades both sides', spaces.cfg_pqr(1, 1, 1), ('T', 2), ('T', 2), 8, kind='bin')
        sh += mk('add/sub: d=4,5 grade blocks', spaces.cfg_pqr(4, 0, 0), ('G',), ('G',), 4, kind='bin')
        sh += mk('add/sub: d=4,5 grade blocks', spaces.cfg_pqr(4, 0, 1), ('Gsmall',), ('G',), 4, kind='bin')
        sh += mk('unary: S(4) complete (65536 patterns)', spaces.cfg_pqr(3, 0, 1), ('S', None), ('B',), 64, kind='unary')
        sh += mk('unary: T(8,3) ordered tuples d=3', spaces.cfg_pqr(3, 0, 0), ('T', 3), ('B',), 4, kind='unary')
        for b in spaces.bases_by_deviation(3, 1)[1:]:
            sh += mk('unary + grade on custom bases (<=1 deviation, d=3)', spaces.cfg_sig([1, 1, -1], basis=b), ('S', 3), ('B',), 1, kind='unary')
            sh += mk('unary + grade on custom bases (<=1 deviation, d=3)', spaces.cfg_sig([1, 1, -1], basis=b), ('G',), ('B',), 1, kind='grade')
        for t in spaces.pqr(3):
            sh += mk('morphism laws: d=3 subsets <=3 blades, all pqr(3)', spaces.cfg_pqr(*t), ('S', 3), ('S', 3), 12, kind='morph')
        for t in [(4, 0, 0), (3, 0, 1), (1, 3, 0)]:
            sh += mk('morphism laws: d=4 grade blocks', spaces.cfg_pqr(*t), ('G',), ('G',), 8, kind='morph')
        sh += mk('grade(): S(4)', spaces.cfg_pqr(4, 0, 0), ('S', 3), ('B',), 8, kind='grade')
    # cross-algebra histories: all signature orderings of one dimension in ONE process, forward and backward
    for d in (1, 2):
        for order in (spaces.sig(d), list(reversed(spaces.sig(d)))):
            sh.append(dict(stratum='all signature orderings of d<=2 one after the other in one process (two orders), subsets <=2 blades',
                           seq=[binprog.mk('seq', spaces.cfg_sig(s), ('S', 2), ('S', 2), 1, kind='bin')[0] for s in order]))
    for d in (1, 2):
        for order in (spaces.sig(d), list(reversed(spaces.sig(d)))):
            sh.append(dict(stratum='all signature orderings of d<=2 one after the other in one process (two orders), subsets <=2 blades',
                           seq=[binprog.mk('seq', spaces.cfg_sig(s), ('S', None), ('B',), 1, kind='unary')[0] for s in order]))
    return sh


def inv_sign(op, k):
    e = {'reverse': k * (k - 1) // 2, 'involute': k, 'conjugate': k * (k + 1) // 2, 'neg': 1}[op]
    return -1 if e % 2 else 1


def run_shard(shard):
    if 'seq' in shard:
        from ..common import run_sequence
        return run_sequence(run_shard, shard)
    res = Result()
    cfg = shard['cfg']
    alg = make_algebra(cfg, **cfg.get('options', {}))
    ref = ref_from_config(cfg)
    gr = {k: len(ref.name_to_blade(alg.bin2canon[k])[1]) for k in alg.bin2canon}
    name = cfg_name(cfg)
    kind = shard['kind']
    head = f"from kingdon import Algebra\nalg = {cfg_repro(cfg)}\n"

    def case_for(ka, kb=None):
        return {'shard': dict(stratum=shard['stratum'], cfg=cfg, kind=kind, left=['list', [list(ka)]],
                              right=['list', [list(kb)]] if kb is not None else shard['right'], chunk=(0, 1))}

    def run(key, what, case, exp, thunk, repro):
        try:
            g, dup = mvdict(thunk())
        except Trap as e:
            res.violate(violation(key + ':trap', f'{what}: {e}', case, 'value independent control flow', str(e), repro))
            return None
        except Exception as e:
            res.violate(violation(key + ':raises', f'{what} raises {type(e).__name__}: {e}', case, show(exp), repr(e), repro))
            return None
        if eq_elem(g, exp) or dup or {k for k, v in exp.items() if not iszero(v)} - set(g):
            res.violate(violation(key, f'{what}: wrong coefficients', case, show(exp), show(g), repro))
        return g

    if kind == 'bin':
        for ka, kb in binprog.pairs(shard, alg):
            a, b = gmv(alg, ka, 'a'), gmv(alg, kb, 'b')
            for op, sgn in (('add', 1), ('sub', -1)):
                res.evals += 1
                exp = dict(zip(ka, a.values()))
                for k, v in zip(kb, b.values()):
                    v = v if sgn > 0 else -v
                    exp[k] = exp[k] + v if k in exp else v
                if ka and kb:
                    res.nontrivial += 1
                sym = '+' if sgn > 0 else '-'
                repro = head + f"a = alg.multivector(keys={tuple(ka)}, name='a'); b = alg.multivector(keys={tuple(kb)}, name='b')\nprint(a {sym} b)"
                run(f'{op}:{len(ka)}x{len(kb)}', f'{name} a{sym}b keys {ka} {kb}', case_for(ka, kb), exp,
                    (lambda: a + b) if sgn > 0 else (lambda: a - b), repro)
            # augmented assignment: s = a; s += b gives a+b and leaves the object a (still referred to elsewhere) what it was
            for op, sgn in (('iadd', 1), ('isub', -1)):
                res.evals += 1
                a2 = gmv(alg, ka, 'a')
                before = list(a2.values())
                exp = dict(zip(ka, a2.values()))
                for k, v in zip(kb, b.values()):
                    v = v if sgn > 0 else -v
                    exp[k] = exp[k] + v if k in exp else v
                repro = head + f"a = alg.multivector(keys={tuple(ka)}, name='a'); b = alg.multivector(keys={tuple(kb)}, name='b')\ns = a\ns {'+' if sgn > 0 else '-'}= b\nprint(s, a)"

                def aug():
                    s_ = a2
                    if sgn > 0:
                        s_ += b
                    else:
                        s_ -= b
                    return s_
                run(f'{op}:{len(ka)}x{len(kb)}', f"{name} s = a; s {'+' if sgn > 0 else '-'}= b keys {ka} {kb}", case_for(ka, kb), exp, aug, repro)
                now = list(a2.values())
                if tuple(a2.keys()) != tuple(ka) or len(now) != len(before) or any(not same(u, v) for u, v in zip(now, before)):
                    res.violate(violation(f'{op}:operand-changed', f"{name} s = a; s {'+' if sgn > 0 else '-'}= b keys {ka} {kb}: the object a was modified", case_for(ka, kb),
                                          show(dict(zip(ka, before))), show(dict(zip(a2.keys(), now))), repro))
            if len(res.samples) < 1 and len(ka) == 2 and len(kb) == 2 and set(ka) != set(kb):
                res.sample({'config': name, 'op': 'sub', 'keys_a': list(ka), 'keys_b': list(kb), 'reference': show(exp)})
    elif kind == 'unary':
        for ka, _ in binprog.pairs({**shard, 'diag': True}, alg):
            a = gmv(alg, ka, 'a')
            for op in UNARY:
                res.evals += 1
                exp = {k: (v if inv_sign(op, gr[k]) > 0 else -v) for k, v in zip(ka, a.values())}
                if any(inv_sign(op, gr[k]) < 0 for k in ka):
                    res.nontrivial += 1
                meth = {'neg': lambda x: -x, 'reverse': lambda x: ~x, 'involute': lambda x: x.involute(), 'conjugate': lambda x: x.conjugate()}[op]
                repro = head + f"a = alg.multivector(keys={tuple(ka)}, name='a')\nprint(a.{op}())"
                g = run(f'{op}:{len(ka)}', f'{name} {op} keys {ka}', case_for(ka), exp, lambda: meth(a), repro)
                if g is not None:
                    # applied twice = identity (on kingdon's own result)
                    res.evals += 1
                    try:
                        first = meth(a)
                        g2, _ = mvdict(meth(first))
                        if eq_elem(g2, dict(zip(ka, a.values()))):
                            res.violate(violation(f'{op}:twice', f'{name} {op} applied twice keys {ka}', case_for(ka), show(dict(zip(ka, a.values()))), show(g2), repro))
                    except Exception as e:
                        res.violate(violation(f'{op}:twice:raises', f'{name} {op} twice keys {ka}: {type(e).__name__}', case_for(ka), '', repr(e), repro))
            # the operators read the *current* coefficients: after the stored list is changed in place (public: mv.values()[i] = v),
            # nothing remembered on the object from an earlier call may be served again
            if ka:
                a.values()[0] = P.var('changed')
                for op in UNARY:
                    res.evals += 1
                    exp = {k: (v if inv_sign(op, gr[k]) > 0 else -v) for k, v in zip(ka, a.values())}
                    meth = {'neg': lambda x: -x, 'reverse': lambda x: ~x, 'involute': lambda x: x.involute(), 'conjugate': lambda x: x.conjugate()}[op]
                    run(f'{op}:after-inplace-change', f'{name} {op} keys {ka} after an in-place change of the first coefficient', case_for(ka), exp, lambda: meth(a),
                        head + f"a = alg.multivector(keys={tuple(ka)}, name='a'); ~a; a.values()[0] = 7; print(~a)")
            if len(res.samples) < 1 and len(ka) >= 3:
                res.sample({'config': name, 'op': 'conjugate', 'keys': list(ka), 'reference': show({k: inv_sign('conjugate', gr[k]) for k in ka})})
    elif kind == 'grade':
        d = alg.d
        sels = [gs for n in range(d + 2) for gs in combinations(range(d + 1), n)]
        for ka, _ in binprog.pairs({**shard, 'diag': True}, alg):
            a = gmv(alg, ka, 'a')
            for gs in sels:
                exp = {k: v for k, v in zip(ka, a.values()) if gr[k] in gs}
                forms = [('tuple', lambda: a.grade(gs))]
                if gs:
                    forms.append(('args', lambda: a.grade(*gs)))
                for fname, th in forms:
                    res.evals += 1
                    if exp and len(exp) < len(ka):
                        res.nontrivial += 1
                    repro = head + f"a = alg.multivector(keys={tuple(ka)}, name='a')\nprint(a.grade({gs}))"
                    g = run(f'grade:{fname}', f'{name} grade{gs} keys {ka}', case_for(ka), exp, th, repro)
                    if g is not None and set(g) != set(exp):
                        res.violate(violation(f'grade:keys', f'{name} grade{gs} keys {ka}: result stores blades {sorted(g)}', case_for(ka), sorted(exp), sorted(g), repro))
            if len(res.samples) < 1 and len(ka) >= 3:
                res.sample({'config': name, 'op': 'grade', 'keys': list(ka), 'selections': len(sels)})
    elif kind == 'num':
        import numpy as np
        from fractions import Fraction
        numbers = [3, 0.5, -2.25, 1.5 + 2j, Fraction(1, 3), True, 10 ** 20 + 1]
        for ka, _ in binprog.pairs({**shard, 'diag': True}, alg):
            n = len(ka)
            if not n:
                continue
            conts = [('list-int', lambda: [2 + i for i in range(n)]),
                     ('ndarray-int', lambda: np.arange(2, 2 + n)),
                     ('ndarray-float', lambda: np.arange(2, 2 + n) / 4),
                     ('ndarray-int-2d', lambda: np.arange(2, 2 + 3 * n).reshape(n, 3)),
                     ('list-Fraction', lambda: [Fraction(2 + i, 7) for i in range(n)]),
                     ('list-of-int-arrays', lambda: [np.arange(i, i + 3) for i in range(n)])]
            for cname, mkv in conts:
                for num in numbers:
                    if isinstance(num, Fraction) and 'ndarray' in cname or (isinstance(num, int) and num > 2 ** 62 and 'array' in cname):
                        continue
                    for form, th, sa, sb in [('mv+n', lambda x: x + num, 1, 1), ('n+mv', lambda x: num + x, 1, 1),
                                             ('mv-n', lambda x: x - num, 1, -1), ('n-mv', lambda x: num - x, -1, 1)]:
                        res.evals += 1
                        res.nontrivial += 1
                        vals = mkv()
                        x = nmv(alg, ka, vals)
                        ref_vals = [v for v in mkv()]
                        exp = {k: (v if sa > 0 else -v) for k, v in zip(ka, ref_vals)}
                        exp[0] = (exp[0] + sb * num) if 0 in exp else sb * num
                        what = f'{name} {form} keys {ka} coefficients {cname} number {num!r}'
                        repro = head + f"# {what}"
                        try:
                            got, dup = mvdict(th(x))
                        except Exception as e:
                            res.violate(violation(f'num:{form}:{cname}:raises', f'{what} raises {type(e).__name__}: {e}', case_for(ka), '', repr(e), repro))
                            continue
                        ok = not dup and set(exp) <= set(got)
                        for k in got:
                            g, w = got[k], exp.get(k, 0)
                            if not np.array_equal(np.asarray(g, dtype=object) if isinstance(w, Fraction) or isinstance(g, Fraction) else np.asarray(g),
                                                  np.asarray(w, dtype=object) if isinstance(w, Fraction) or isinstance(g, Fraction) else np.asarray(w)):
                                ok = False
                        if not ok:
                            res.violate(violation(f'num:{form}:{cname}:{type(num).__name__}', f'{what}: wrong coefficients', case_for(ka), str(exp), str(got), repro))
                        # the operand itself is not changed
                        if not all(np.array_equal(np.asarray(a_), np.asarray(b_)) for a_, b_ in zip(list(x.values()), list(mkv()))):
                            res.violate(violation(f'num:{form}:{cname}:operand-changed', f'{what}: the operand was modified', case_for(ka), str(list(mkv())), str(list(x.values())), repro))
        res.sample({'config': name, 'kind': 'mv +/- number', 'numbers': [repr(x) for x in numbers]})
    elif kind == 'morph':
        for ka, kb in binprog.pairs(shard, alg):
            a, b = gmv(alg, ka, 'a'), gmv(alg, kb, 'b')
            try:
                ab = a * b
                laws = [('reverse-anti', lambda: ~ab, lambda: (~b) * (~a)),
                        ('conjugate-anti', lambda: ab.conjugate(), lambda: b.conjugate() * a.conjugate()),
                        ('involute-auto', lambda: ab.involute(), lambda: a.involute() * b.involute())]
                for lname, l, r in laws:
                    res.evals += 1
                    L, _ = mvdict(l())
                    Rr, _ = mvdict(r())
                    if any(not iszero(v) for v in L.values()):
                        res.nontrivial += 1
                    if eq_elem(L, Rr):
                        repro = head + f"a = alg.multivector(keys={tuple(ka)}, name='a'); b = alg.multivector(keys={tuple(kb)}, name='b')\nprint(~(a*b) - (~b)*(~a))"
                        res.violate(violation(f'morph:{lname}', f'{name} {lname} keys {ka} x {kb}', case_for(ka, kb), show(Rr), show(L), repro))
            except Exception as e:
                res.violate(violation('morph:raises', f'{name} morphism law keys {ka} x {kb}: {type(e).__name__}: {e}', case_for(ka, kb), '', repr(e)))
        res.sample({'config': name, 'law': '(ab)~ == b~ a~', 'pairs_in_shard': res.evals // 3})
    return res.asdict()
