"""C14  Custom bases and start indices are a pure relabelling; foreign operands are rejected."""
from fractions import Fraction
from itertools import permutations, product

from .. import spaces, binprog
from ..common import Result, nmv, mvdict, show, cfg_name, cfg_repro, close
from ..harness import violation
from ..oracle import make_algebra, ref_from_config, mv_to_ref, Ref, sort_word

PID = 'C14'
LEVEL = 'exploration'
RULE = ('relabelling: cases = (configuration with custom basis / start index, operator, operand blades or small subsets with Fraction values); '
        'oracle: phi(op_custom(x, y)) == op_ref(phi x, phi y) where phi maps each named blade to sign x sorted generator word and op_ref is the '
        'reference algebra over words (orientation dependent operators use J = phi(pseudoscalar of the custom basis)); accessors with every spelling; '
        'asmatrix homomorphism. rejection: all ordered pairs of algebras with different metric or basis x binary operators must raise. distinct = '
        'distinct (configuration, operator, operands); non-trivial = reference result non-zero / the two algebras really differ.')
ASSUMPTIONS = ['reference = word oracle; pairs of algebras that differ only in options or start index are not judged']
BOUNDS = {
    'quick': 'all custom bases d<=2 x sig(d); <=1 deviation d=3 x 5 signatures; 2DPGA, 3DPGA; start_index {0,1,2} d<=3; blades and pairs of blades (complete by '
             'bilinearity), subsets <=2 blades for inverse/division; rejection: all ordered pairs from sig(d) d<=2 x {default, custom}',
    'thorough': 'all 1728 bases of d=3 x 3 signatures (blade pairs), <=2 deviations d=4, <=1 deviation d=5, STAP; subsets <=3 blades for nonlinear operators; '
                'rejection: all ordered pairs from sig(d) d<=3 x {default, custom}',
}
BIL = ['gp', 'op', 'ip', 'lc', 'rc', 'sp', 'cp', 'acp', 'rp']
LIN = ['neg', 'reverse', 'involute', 'conjugate', 'hodge', 'unhodge', 'polarity', 'unpolarity']
NONLIN_U = ['inv', 'normsq', 'outerexp', 'outersin', 'outercos', 'outertan']
NONLIN_B = ['sw', 'proj', 'div', 'add', 'sub']


def shards(tier, seed):
    sh = []
    cfgs = []
    for d in (1, 2):
        cfgs += [spaces.cfg_sig(s, basis=b) for b in spaces.all_bases(d) for s in spaces.sig(d)]
    for d in (1, 2):
        cfgs += [spaces.cfg_sig(s, basis=b) for st in (0, 2) for b in spaces.all_bases(d, start=st) for s in spaces.sig(d)]
    s3 = [[1, 1, 1], [0, 1, 1], [1, -1, 0], [-1, -1, 1], [0, 0, 1]]
    cfgs += [spaces.cfg_sig(s, basis=b) for b in spaces.bases_by_deviation(3, 1)[1:] for s in s3]
    cfgs += [spaces.cfg_sig(s, start_index=st) for d in (1, 2, 3) for s in spaces.sig(d)[::2] for st in (0, 1, 2)]
    cfgs += [spaces.NAMED['2DPGA'], spaces.NAMED['3DPGA']]
    if tier == 'thorough':
        cfgs += [spaces.cfg_sig(s, basis=b) for b in spaces.all_bases(3) for s in ([1, 1, 1], [0, 1, -1], [-1, 0, 1])]
        cfgs += [spaces.cfg_sig(s, basis=b) for b in spaces.bases_by_deviation(4, 2)[1:] for s in ([1, 1, 1, 1], [0, 1, 1, -1])]
        cfgs += [spaces.cfg_sig(s, basis=b) for b in spaces.bases_by_deviation(5, 1)[1:] for s in ([1, 1, 1, 1, 1], [0, 1, 1, 1, -1])]
        cfgs += [spaces.NAMED['STAP']]
    for ch in spaces.chunks(cfgs, max(1, len(cfgs) // 12)):
        sh.append(dict(stratum='relabelling: bilinear and linear operators on all blades / blade pairs, accessors with every spelling', cfgs=ch, kind='blades'))
    nl = [c for c in cfgs if len(ref_from_config(c).metric) <= 3]
    nl = nl[::3] if tier == 'quick' else nl[::30]
    for ch in spaces.chunks(nl, max(1, len(nl) // 6)):
        sh.append(dict(stratum='relabelling: inverse, division, sandwich, projection, norms, outer exponentials on subsets with Fraction values', cfgs=ch,
                       kind='nonlinear', maxsize=2 if tier == 'quick' else 3))
    mats = [spaces.NAMED['2DPGA'], spaces.NAMED['3DPGA']] + [spaces.cfg_sig(s, basis=b) for b in spaces.bases_by_deviation(3, 1)[1:4] for s in ([1, 1, 1], [0, 1, 1])] \
        + [spaces.cfg_sig(s, start_index=st) for s in ([1, 1], [0, 1, 1]) for st in (0, 2)]
    if tier == 'thorough':
        mats += [spaces.NAMED['STAP']] + [spaces.cfg_sig(s, basis=b) for b in spaces.all_bases(2) for s in spaces.sig(2)]
    for ch in spaces.chunks(mats, 4):
        sh.append(dict(stratum='relabelling: asmatrix is a homomorphism with the coefficients in the custom canonical order in its first column', cfgs=ch, kind='matrix'))
    # rejection of foreign operands
    dmax = 2 if tier == 'quick' else 3
    pool = []
    for d in range(1, dmax + 1):
        bs = spaces.bases_by_deviation(d, 1)
        for s in spaces.sig(d):
            pool.append(spaces.cfg_sig(s))
            if len(bs) > 1:
                pool.append(spaces.cfg_sig(s, basis=bs[-1]))
    pairs = [(a, b) for a in pool for b in pool if a is not b]
    for ch in spaces.chunks(pairs, 16):
        sh.append(dict(stratum=f'rejection: all ordered pairs of distinct algebras from sig(d) d<={dmax} x {{default, one custom basis}}', pairs=ch, kind='reject'))
    return sh


def ref_to_keys(alg, ref, x):
    out = {}
    for k, name in alg.bin2canon.items():
        s, B = ref.name_to_blade(name)
        if B in x:
            out[k] = x[B] if s > 0 else -x[B]
    return out


def ref_apply(ref, op, *xs):
    if op == 'outertan':
        c = ref.inverse(ref.outercos(xs[0]))
        return None if c is None else ref.gp(ref.outersin(xs[0]), c)
    if op == 'inv':
        return ref.inverse(xs[0])
    if op == 'div':
        i = ref.inverse(xs[1])
        return None if i is None else ref.gp(xs[0], i)
    if op in ('add', 'sub', 'neg'):
        return getattr(Ref, op)(*xs)
    return getattr(ref, op)(*xs)


def compare(res, alg, ref, cfg, op, mvs, case, stratum):
    name = cfg_name(cfg)
    res.evals += 1
    desc = ' , '.join(str(dict(zip(m.keys(), m.values()))) for m in mvs)
    try:
        want_ref = ref_apply(ref, op, *[mv_to_ref(alg, ref, m) for m in mvs])
    except ZeroDivisionError:
        want_ref = 'ZeroDivisionError'
    repro = f"from fractions import Fraction\nfrom kingdon import Algebra\nalg = {cfg_repro(cfg)}\n# {op} on {desc}"
    try:
        got, dup = mvdict(getattr(mvs[0], op)(*mvs[1:]))
    except ZeroDivisionError:
        if want_ref not in (None, 'ZeroDivisionError'):
            res.violate(violation(f'{op}:spurious-zerodivision', f'{name} {op} on {desc}', case, str(want_ref), 'ZeroDivisionError', repro))
        else:
            res.skipped += 1
        return
    except Exception as e:
        res.violate(violation(f'{op}:raises', f'{name} {op} on {desc}: {type(e).__name__}: {e}', case, str(want_ref), repr(e), repro))
        return
    if want_ref is None or want_ref == 'ZeroDivisionError':
        res.skipped += 1
        return
    want = ref_to_keys(alg, ref, want_ref)
    if want_ref:
        res.nontrivial += 1
    bad = [k for k in set(got) | set(want) if not close(got.get(k, 0), want.get(k, 0), 1e-9)]
    if bad or dup:
        res.violate(violation(f'{op}:relabel', f'{name} {op} on {desc}: does not commute with the relabelling map on blades {[alg.bin2canon[k] for k in sorted(bad)]}',
                              case, show(want), show(got), repro))
    elif len(res.samples) < 2 and cfg.get('basis') and len(want) >= 1 and op in ('gp', 'hodge', 'rp'):
        res.sample({'config': name, 'op': op, 'operands': desc, 'result': show(got)})


def run_shard(shard):
    res = Result()
    kind = shard['kind']
    if kind == 'reject':
        return run_reject(shard, res)
    for cfg in shard['cfgs']:
        alg = make_algebra(cfg)
        ref = ref_from_config(cfg)
        case = {'shard': dict(shard, cfgs=[cfg])}
        keys = list(alg.canon2bin.values())
        name = cfg_name(cfg)
        if kind == 'blades':
            blades = [nmv(alg, (k,), [Fraction(1)]) for k in keys]
            for a in blades:
                for op in LIN:
                    compare(res, alg, ref, cfg, op, [a], case, shard['stratum'])
                for b in blades:
                    for op in BIL:
                        compare(res, alg, ref, cfg, op, [a, b], case, shard['stratum'])
            # accessors: every spelling of every blade
            x = nmv(alg, keys, [Fraction(2 + i) for i in range(len(keys))])
            for nm, k in alg.canon2bin.items():
                if len(nm) > 5:
                    continue
                for perm in permutations(nm[1:]):
                    res.evals += 1
                    sp = 'e' + ''.join(perm)
                    par, _ = sort_word([nm[1:].index(ch) for ch in perm])
                    try:
                        got = getattr(x, sp)
                    except Exception as e:
                        got = repr(e)
                    want = par * Fraction(2 + keys.index(k))
                    if got != want:
                        res.violate(violation('accessor:spelling', f'{name}: x.{sp} should be {par} * x.{nm}', case, want, got,
                                              f"from kingdon import Algebra\nalg = {cfg_repro(cfg)}\nx = alg.multivector(name='x'); print(x.{sp}, x.{nm})"))
        elif kind == 'nonlinear':
            subs = binprog.expand(('S', shard['maxsize']), alg)
            for i, ka in enumerate(subs):
                if not ka:
                    continue
                a = nmv(alg, ka, [Fraction(2 + ((3 * j + i) % 5), 1 + (j % 2)) * (-1 if (i + j) % 3 == 0 else 1) for j in range(len(ka))])
                for op in NONLIN_U:
                    compare(res, alg, ref, cfg, op, [a], case, shard['stratum'])
                for kb in subs[1:8]:
                    b = nmv(alg, kb, [Fraction(3 + j, 2) for j in range(len(kb))])
                    for op in NONLIN_B:
                        compare(res, alg, ref, cfg, op, [a, b], case, shard['stratum'])
        elif kind == 'matrix':
            import numpy as np
            n = len(keys)
            mats = {}
            for k in keys:
                res.evals += 1
                m = np.array(nmv(alg, (k,), [1]).asmatrix())
                mats[k] = m
                col = [0] * n
                col[keys.index(k)] = 1
                if list(m[:, 0]) != col:
                    res.violate(violation('asmatrix:first-column:' + ('custom-basis' if cfg.get('basis') else 'default-basis'), f'{name}: first column of asmatrix({alg.bin2canon[k]}) is not the unit vector of its canonical position',
                                          case, col, list(m[:, 0]), f"from kingdon import Algebra\nalg = {cfg_repro(cfg)}\nprint(alg.blades['{alg.bin2canon[k]}'].asmatrix()[:, 0])"))
            for a in keys:
                for b in keys:
                    res.evals += 1
                    s = alg.signs[a, b]
                    want = s * mats[a ^ b] if s else 0 * mats[0]
                    if s:
                        res.nontrivial += 1
                    if not np.array_equal(mats[a] @ mats[b], want):
                        na, nb = alg.bin2canon[a], alg.bin2canon[b]
                        res.violate(violation('asmatrix:homomorphism:' + ('custom-basis' if cfg.get('basis') else 'default-basis'), f'{name}: asmatrix({na}) @ asmatrix({nb}) != asmatrix({na}*{nb})', case, 'equal matrices', 'different',
                                              f"from kingdon import Algebra\nalg = {cfg_repro(cfg)}\na, b = alg.blades['{na}'], alg.blades['{nb}']\nprint(a.asmatrix() @ b.asmatrix() - (a*b).asmatrix())"))
                        break
            res.sample({'config': name, 'matrices': n, 'pairs': n * n})
    return res.asdict()


def differs(c1, c2):
    """True if metric (per generator label) or basis differ."""
    r1, r2 = ref_from_config(c1), ref_from_config(c2)
    if r1.d != r2.d:
        return True
    if list(r1.metric) != list(r2.metric):
        return True
    b1 = c1.get('basis') or spaces.default_basis(r1.d, r1.start)
    b2 = c2.get('basis') or spaces.default_basis(r2.d, r2.start)
    if r1.start != r2.start:
        return None      # differ (at most) by start index: not judged
    return list(b1) != list(b2)


def run_reject(shard, res):
    ops = ['gp', 'add', 'sub', 'op', 'ip', 'sw', 'div', 'rp', 'proj', 'cp']
    for c1, c2 in shard['pairs']:
        dif = differs(c1, c2)
        if not dif:
            continue
        A, B = make_algebra(c1), make_algebra(c2)
        x = A.multivector(keys=(1,), values=[Fraction(2)]) if A.d else A.multivector(keys=(0,), values=[Fraction(2)])
        y = B.multivector(keys=(1,), values=[Fraction(3)]) if B.d else B.multivector(keys=(0,), values=[Fraction(3)])
        x2 = A.multivector(keys=tuple(y.keys()), values=[Fraction(5)]) if all(k < len(A) for k in y.keys()) else None
        for op in ops:
            res.evals += 1
            res.nontrivial += 1
            # the same operator on the same pair of key patterns inside A comes first (whatever gets cached must not
            # short-cut the identity check of the mixed call)
            if x2 is not None:
                try:
                    getattr(x, op)(x2)
                except Exception:
                    pass
            try:
                r = getattr(x, op)(y)
                same_d = A.d == B.d
                what = 'metric' if (same_d and not c1.get('basis') and not c2.get('basis')) else 'basis' if same_d else 'dimension'
                res.violate(violation(f'reject:{what}-differs', f'{op} on operands of {cfg_name(c1)} and {cfg_name(c2)} returns {r} instead of raising',
                                      {'shard': dict(shard, pairs=[[c1, c2]])}, 'an error', str(r),
                                      f"from kingdon import Algebra\nA = {cfg_repro(c1)}; B = {cfg_repro(c2)}\nprint(A.multivector(e1=2).{op}(B.multivector(e1=3)))"))
            except Exception:
                pass
    res.sample({'pairs_in_shard': len(shard['pairs']), 'operators': ops})
    return res.asdict()
