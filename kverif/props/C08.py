"""C08  Results do not depend on how an operand is stored (metamorphic: every layout vs the canonical sparse layout)."""
from fractions import Fraction
from itertools import permutations

from .. import spaces, binprog
from ..common import Result, nmv, mvdict, show, cfg_name, cfg_repro, close
from ..harness import violation
from ..oracle import make_algebra
from ..ring import P, R, Trap, same, iszero

PID = 'C08'
LEVEL = 'exploration'
BINARY = ['gp', 'sw', 'cp', 'acp', 'ip', 'sp', 'lc', 'rc', 'op', 'rp', 'proj', 'add', 'sub', 'div']
UNARY = ['inv', 'neg', 'reverse', 'involute', 'conjugate', 'polarity', 'unpolarity', 'hodge', 'unhodge', 'normsq',
         'outerexp', 'outersin', 'outercos', 'outertan', 'pow2', 'pow3', 'dual', 'undual', 'grade1', 'asfull']
POLY4 = ['neg', 'reverse', 'involute', 'conjugate', 'hodge', 'unhodge', 'outerexp', 'outersin', 'outercos', 'pow2', 'grade1', 'asfull']
FLOATY = ['sqrt', 'norm', 'normalized', 'exp', 'pow0.5']
FIELD = {'inv', 'div'}
NUMERIC = {'outertan'}
RULE = ('cases = (configuration, operator, base operand(s) = canonical sparse key set with generic coefficients, layout(s)); layouts = all '
        'permutations of the key tuple x paddings {none, one extra blade with explicit zero (front and back), full canonical, full binary, full '
        'reversed}; oracle = the element returned for the canonical sparse layout (coefficient-wise, exception class must agree). distinct = '
        'distinct (configuration, operator, base, layout pair); non-trivial = layout differs from the base layout and the base result is non-zero.')
ASSUMPTIONS = ['sqrt/norm/normalized/exp are compared only inside the domain C19 states (Study numbers with positive scalar part, simple elements)',
               'value types: generic ring P, fraction field R for inv/div/outertan, floats with tolerance 1e-9 for sqrt/exp/norm']
BOUNDS = {
    'quick': 'd=2 (2 configurations binary, 3 unary): base subsets <=2 blades, every layout of one operand vs canonical other + diagonal, all operators; d=4 polynomial unary operators on a 24-subset menu; d=3 (2 configurations): '
             'unary operators on subsets <=2 blades, binary on an 8-subset menu',
    'thorough': 'd=2: full product L(x) x L(y); d=3 (pqr(3) + 4 mixed orderings): unary on subsets <=3 blades, binary on subsets <=2 blades (one-sided + diagonal); '
                'd=4: polynomial unary operators on a 24-subset menu with every padding (2 configurations)',
}


def shards(tier, seed):
    sh = []

    def mk(stratum, cfg, kind, base, n, **kw):
        return [dict(stratum=stratum, cfg=cfg, kind=kind, base=list(base), chunk=(i, n), **kw) for i in range(n)]
    d2 = [spaces.cfg_pqr(2, 0, 0), spaces.cfg_pqr(1, 0, 1), spaces.cfg_sig([-1, 1])]
    for c in d2:
        if tier == 'thorough' or c != d2[2]:
            sh += mk('d=2: binary operators, base subsets <=2 blades, ' + ('full layout product' if tier == 'thorough' else 'one-sided layouts + diagonal'),
                     c, 'bin', ('S', 2), 8, full=(tier == 'thorough'))
        sh += mk('d=2: unary operators, all base subsets', c, 'un', ('S', None), 2)
        sh += mk('float-valued operators (sqrt, norm, normalized, exp, **0.5) on Study numbers / simple elements', c, 'float', ('S', 2), 1)
    d3q = [spaces.cfg_pqr(3, 0, 0), spaces.cfg_pqr(2, 0, 1)]
    d3 = [spaces.cfg_pqr(*t) for t in spaces.pqr(3)] + [spaces.cfg_sig(s) for s in spaces.mixed_orderings(3)]
    if tier == 'quick':
        sh += mk('d=4: polynomial unary operators on a 24-subset menu (<=2 blades, grade >= 1) with every padding', spaces.cfg_pqr(4, 0, 0), 'un', ('menu24',), 8, only_ops=POLY4)
        for c in d3q:
            sh += mk('d=3: unary operators on subsets <=2 blades', c, 'un', ('S', 2), 6)
            if c.get('r') == 1:
                sh += mk('d=3: binary operators on a menu of 8 base subsets (one-sided + diagonal)', c, 'bin', ('menu8',), 16)
            sh += mk('float-valued operators (sqrt, norm, normalized, exp, **0.5) on Study numbers / simple elements', c, 'float', ('S', 2), 2)
    else:
        for c in d3:
            sh += mk('d=3: unary operators on subsets <=3 blades (14 configurations)', c, 'un', ('S', 3), 12)
            if c in d3[::4]:
                sh += mk('d=3: binary operators on subsets <=2 blades, one-sided + diagonal (4 configurations)', c, 'bin', ('S', 2), 37)
            sh += mk('float-valued operators (sqrt, norm, normalized, exp, **0.5) on Study numbers / simple elements', c, 'float', ('S', 2), 2)
        # (dense layouts of small grade blocks in d=4 for all unary operators, and binary operators on dense d=4 layouts, were part
        # of the first thorough tier; one shard of them runs for more than ten minutes, so they are not in the registered command)
        for c in [spaces.cfg_pqr(4, 0, 0), spaces.cfg_pqr(3, 0, 1)]:
            sh += mk('d=4: polynomial unary operators on a 24-subset menu (<=2 blades, grade >= 1) with every padding', c, 'un', ('menu24',), 8, only_ops=POLY4)
    return sh


def layouts(keys, canon):
    return spaces.layouts(keys, canon)


def make_operand(alg, base_keys, layout, prefix, cls, vals=None):
    """Same element as the base (generic coefficient per base blade), stored in `layout` (extra blades = explicit zero)."""
    zero = cls.lift(0) if cls in (P, R) else cls(0)
    if vals is None:
        vals = {k: cls.var(f'{prefix}{k}') for k in base_keys}
    return nmv(alg, layout, [vals[k] if k in vals else zero for k in layout])


def apply(op, a, b=None):
    if b is not None:
        return getattr(a, op)(b)
    if op == 'pow2':
        return a ** 2
    if op == 'pow3':
        return a ** 3
    if op == 'pow0.5':
        return a ** 0.5
    if op == 'grade1':
        return a.grade(1)
    if op == 'asfull':
        return a.asfullmv()
    return getattr(a, op)()


def outcome(op, a, b=None):
    try:
        d, dup = mvdict(apply(op, a, b))
        return ('ok', d, dup)
    except Trap as e:
        return ('trap', str(e), False)
    except Exception as e:
        return ('exc', type(e).__name__, False)


FLOAT_CONSTS = {'outerexp', 'outersin', 'outercos', 'outertan'}     # generated code contains 1/k! as floats


def eq_for(op):
    if op in FLOAT_CONSTS:
        return lambda x, y: close(x, y, 1e-9)
    return same


def equal_outcome(o1, o2, eq):
    if o1[0] != o2[0]:
        return False
    if o1[0] != 'ok':
        return o1[1] == o2[1]
    a, b = o1[1], o2[1]
    return all(eq(a.get(k, 0), b.get(k, 0)) for k in set(a) | set(b))


def bases(shard, alg):
    spec = tuple(shard['base'])
    if spec[0] == 'menu8':
        allsub = binprog.expand(('S', 3), alg)
        step = max(1, len(allsub) // 8)
        out = allsub[1::step][:8]
    elif spec[0] == 'menu24':
        allsub = [t for t in binprog.expand(('S', 2), alg) if t and 0 not in t]
        step = max(1, len(allsub) // 24)
        out = allsub[::step][:24]
    else:
        out = binprog.expand(spec, alg)
    return out


def run_shard(shard):
    res = Result()
    cfg = shard['cfg']
    alg = make_algebra(cfg)
    canon = tuple(alg.canon2bin.values())
    name = cfg_name(cfg)
    kind = shard['kind']
    head = f"from kingdon import Algebra\nalg = {cfg_repro(cfg)}\n"
    B = bases(shard, alg)
    i, n = shard['chunk']

    def report(op, base, lay, o_base, o_lay, cls):
        case = {'shard': dict(shard, base=['list', [list(x) for x in base]], chunk=(0, 1), only_op=op)}
        padded = any(len(l) != len(bk) for l, bk in zip(lay, base))
        key = f"{op}:{'padded' if padded else 'permuted'}"
        res.violate(violation(key, f'{name} {op}: base keys {base} stored as {lay} gives a different element', case,
                              o_base[1] if o_base[0] != 'ok' else show(o_base[1]), o_lay[1] if o_lay[0] != 'ok' else show(o_lay[1]),
                              head + f"# same element, layouts {lay} vs canonical sparse {base}; operator {op}"))

    only = shard.get('only_op')
    if kind == 'un':
        mine = spaces.chunks(B, n)[i] if i < len(spaces.chunks(B, n)) else []
        for ka in mine:
            for op in UNARY:
                if only and op != only:
                    continue
                if shard.get('only_ops') and op not in shard['only_ops']:
                    continue
                cls = R if op in FIELD else P
                vals = None
                if op in NUMERIC:
                    cls = Fraction
                    vals = {k: Fraction(2 + 3 * j, 3 + j) * (-1) ** j for j, k in enumerate(ka)}
                a0 = make_operand(alg, ka, ka, 'a', cls, vals)
                o0 = outcome(op, a0)
                for la in layouts(ka, canon):
                    res.evals += 1
                    o1 = outcome(op, make_operand(alg, ka, la, 'a', cls, vals))
                    if la != tuple(ka) and o0[0] == 'ok' and any(not iszero(v) for v in o0[1].values()):
                        res.nontrivial += 1
                    if not equal_outcome(o0, o1, eq_for(op)) or o1[2]:
                        report(op, (ka,), (la,), o0, o1, cls)
            if len(res.samples) < 1 and len(ka) == 2:
                res.sample({'config': name, 'base_keys': list(ka), 'layouts': [list(l) for l in layouts(ka, canon)][:6], 'operators': len(UNARY)})
    elif kind == 'bin':
        pairs = [(a, b) for a in B for b in B]
        mine = spaces.chunks(pairs, n)[i] if i < len(spaces.chunks(pairs, n)) else []
        for ka, kb in mine:
            La, Lb = layouts(ka, canon), layouts(kb, canon)
            if shard.get('full'):
                combos = [(la, lb) for la in La for lb in Lb]
            else:
                combos = [(la, tuple(kb)) for la in La] + [(tuple(ka), lb) for lb in Lb] + [(La[j % len(La)], Lb[j % len(Lb)]) for j in range(max(len(La), len(Lb)))]
            combos = list(dict.fromkeys(combos))
            for op in BINARY:
                if only and op != only:
                    continue
                cls = R if op in FIELD else P
                o0 = outcome(op, make_operand(alg, ka, ka, 'a', cls), make_operand(alg, kb, kb, 'b', cls))
                for la, lb in combos:
                    res.evals += 1
                    o1 = outcome(op, make_operand(alg, ka, la, 'a', cls), make_operand(alg, kb, lb, 'b', cls))
                    if (la, lb) != (tuple(ka), tuple(kb)) and o0[0] == 'ok' and any(not iszero(v) for v in o0[1].values()):
                        res.nontrivial += 1
                    if not equal_outcome(o0, o1, same) or o1[2]:
                        report(op, (ka, kb), (la, lb), o0, o1, cls)
            if len(res.samples) < 1 and len(ka) == 2 and len(kb) == 1:
                res.sample({'config': name, 'base_keys': [list(ka), list(kb)], 'layout_pairs': len(combos), 'operators': len(BINARY)})
    elif kind == 'float':
        # Study numbers scalar + one blade / bivector with positive scalar part; simple elements for exp
        g = spaces.grade_of
        mine = [k for k in B if k]
        for ka in mine:
            for op in FLOATY:
                if only and op != only:
                    continue
                for valset in ([3.0, 0.5, 0.25], [2.5, -0.75, 0.5]):
                    if op == 'exp':
                        if len(ka) != 1:
                            continue
                        base, vals = tuple(ka), {ka[0]: valset[1] * 2}
                    else:
                        nonscalar = tuple(k for k in ka if k != 0)
                        if len(nonscalar) != 1:
                            continue
                        base = (0,) + nonscalar
                        vals = {0: valset[0], nonscalar[0]: valset[1]}
                    a0 = make_operand(alg, base, base, 'a', float, vals)
                    if op in ('norm', 'normalized'):
                        ns = outcome('normsq', a0)
                        if ns[0] != 'ok' or not (ns[1].get(0, 0) > 0) or any(abs(v) > 1e-12 for k, v in ns[1].items() if k != 0):
                            res.skipped += 1
                            continue
                    o0 = outcome(op, a0)
                    for la in layouts(base, canon):
                        res.evals += 1
                        o1 = outcome(op, make_operand(alg, base, la, 'a', float, vals))
                        if la != base and o0[0] == 'ok':
                            res.nontrivial += 1
                        if not equal_outcome(o0, o1, lambda x, y: close(x, y, 1e-9)):
                            report(op, (base,), (la,), o0, o1, float)
    return res.asdict()
