"""C20  Graph widget payload reflects the multivectors it is given (explicit-state search over drag sequences).

The widget's traitlets are decoded by kverif.frontend (a literal port of graph.js).  Scenes (subject trees) are enumerated
completely up to a number of leaves; for every scene with draggable points a BFS over sequences of drag events is run, each
event reported by the reference front end from the currently decoded scene and applied by assigning widget.draggable_points.
"""
from itertools import product

from ..common import Result
from ..frontend import Element, decode, encode, report
from ..harness import violation
from ..spaces import chunks

PID = 'C20'
# (ProcessPoolExecutor(max_tasks_per_child=...) deadlocks on this Python version, so the remaining ~4 KB per widget are tolerated)
LEVEL = 'model_checking'
RULE = ('scene = tuple of leaves from a menu {colour int, string, multivector in 5 layouts x 3 backings, array-valued (n,2) and (n,2,2), nullary callable '
        'returning a multivector that depends on another one, callable returning a list} plus nesting wrappers (list, tuple, root callable); all scenes up to '
        'the leaf bound are built; state = coefficients of every multivector of the scene; transition = one drag event (draggable point x 3 displacements) '
        'formed by the reference front end from the decoded subjects and applied through the draggable_points traitlet; invariants in every state: decoded '
        'subjects == reference rendering of the live scene (every blade coefficient through the canonical accessor), front-end index i addresses the same '
        'multivector as pre_subjects[i]; on every transition: exactly the addressed multivector changed, to the reported coefficients.')
ASSUMPTIONS = ['ganja Elements list coefficients in kingdon\'s canonical blade order for default bases (key2idx is checked against it)',
               'kverif.frontend ports toElement/decode/encode of graph.js literally; rendering itself (ganja.js) is out of scope']
BOUNDS = {'quick': 'Algebra(2,0,1), Algebra(3,0,1), Algebra(2), Algebra(3); scenes with 1 leaf from the full 29-leaf menu, 2 leaves (full menu x 9-leaf sub-menu, both orders) and 3 leaves from the sub-menu, 4 nesting wrappers; '
                   'drag BFS depth 2 (depth 3 for single-leaf scenes)',
          'thorough': 'adds Algebra(4), Algebra(1,1,1); scenes with <=2 leaves from the full menu, 3 leaves from a 14-leaf menu, 4 leaves from a 6-leaf menu; drag BFS depth 3 / 2 / 1 for <=2 / 3 / 4 leaves'}

ALGS = {'pga2': (2, 0, 1), 'pga3': (3, 0, 1), 'vga2': (2, 0, 0), 'vga3': (3, 0, 0), 'vga1': (1, 0, 0), 'vga4': (4, 0, 0), 'mix3': (1, 1, 1),
        # explicit signature orderings that share (p, q, r)
        'sig+-': [1, -1], 'sig-+': [-1, 1], 'sig0++': [0, 1, 1], 'sig++0': [1, 1, 0], 'sig+0+': [1, 0, 1]}


def mkalg(name):
    from kingdon import Algebra
    a = ALGS[name]
    return Algebra(signature=list(a)) if isinstance(a, list) else Algebra(*a)
LAYOUTS = ['sparse', 'permuted', 'dense', 'densebin', 'empty']
BACKINGS = ['list', 'intarr', 'floatarr', 'f32arr', 'i32arr']
MENU = ['int', 'str'] + [f'mv:{l}:{b}' for l in LAYOUTS for b in BACKINGS if not (l == 'empty' and b != 'list')] + ['mv:arr1', 'mv:arr2', 'call:mv', 'call:list', 'mv:point:list', 'call:partial', 'call:object']
SUBMENU = ['int', 'mv:sparse:list', 'mv:permuted:floatarr', 'mv:densebin:list', 'mv:dense:intarr', 'mv:arr1', 'call:mv', 'call:list', 'mv:point:list']
WRAPS = ['plain', 'list', 'tuple', 'rootcall']
DELTAS = [0.5, -1.25, 2.0, 2.0 ** -18]      # the last one: a fine adjustment (far below any "is it close" tolerance, exact in float32)


def shards(tier, seed):
    algs = ['pga2', 'pga3', 'vga2', 'vga3'] + (['vga4', 'mix3'] if tier == 'thorough' else [])
    sh = []
    sh.append(dict(stratum='algebra description (signature, key2idx, cayley) for signature orderings sharing (p,q,r), one process, two orders', alg='sig+-', kind='describe',
                   seq=['sig+-', 'sig-+', 'vga2', 'sig0++', 'sig++0', 'sig+0+', 'pga2', 'sig-+', 'sig+-', 'sig+0+', 'sig0++']))
    for a in algs:
        scenes = [[m] for m in MENU]
        if tier == 'quick':
            # every leaf kind next to (before and after) each leaf of the sub-menu
            pairs = [list(p) for p in product(MENU, SUBMENU)] + [list(p) for p in product(SUBMENU, MENU)]
            scenes += [list(t) for t in dict.fromkeys(tuple(p) for p in pairs)]
        else:
            scenes += [list(p) for p in product(MENU, repeat=2)]
        if tier == 'quick':
            scenes += [list(p) for p in product(SUBMENU, repeat=3)]
        else:
            MID = SUBMENU + ['str', 'mv:empty:list', 'mv:dense:f32arr', 'mv:arr2', 'mv:sparse:i32arr']
            scenes += [list(p) for p in product(MID, repeat=3)] + [list(p) for p in product(SUBMENU[:6], repeat=4)]
        n = 16 if tier == 'quick' else 64
        for ch in chunks(scenes, n):
            sh.append(dict(stratum=f'scenes (subject trees) and drag sequences', alg=a, scenes=ch, depth=2 if tier == 'quick' else 3))
    return sh


# ------------------------------------------------------------------------------------------------- scene construction
def point_keys(alg):
    """Keys of the draggable 'point' grade for this algebra."""
    d = alg.d
    g = d - 1 if (alg.r == 1 and d in (3, 4)) else 1
    return tuple(alg.indices_for_grade[g]) if d >= 1 else (0,)


def make_mv(alg, layout, backing, salt):
    import numpy as np
    from kingdon import MultiVector
    pk = point_keys(alg)
    canon = tuple(alg.canon2bin.values())
    if layout == 'sparse':
        keys = pk[:max(1, len(pk) - 1)]
    elif layout == 'permuted':
        keys = tuple(reversed(pk))
    elif layout == 'point':
        keys = pk
    elif layout == 'dense':
        keys = canon
    elif layout == 'densebin':
        keys = tuple(range(len(alg)))
    else:
        keys = ()
    vals = [float(1 + ((3 * i + salt) % 7)) * (0.5 if (i + salt) % 3 == 0 else 1.0) * (-1 if (i + salt) % 4 == 1 else 1) if k in pk else 0.0 for i, k in enumerate(keys)]
    if layout in ('dense', 'densebin'):
        # a point stored densely: non-zero only on the point grade, explicit zeros elsewhere, plus one off-grade marker value
        pass
    if backing == 'intarr':
        vals = np.array([int(2 * v) for v in vals], dtype=np.int64)
    elif backing == 'floatarr':
        vals = np.array(vals, dtype=np.float64)
    elif backing == 'f32arr':
        vals = np.array(vals, dtype=np.float32)      # all menu values are exactly representable in float32
    elif backing == 'i32arr':
        vals = np.array([int(2 * v) for v in vals], dtype=np.int32)
    return MultiVector.fromkeysvalues(alg, tuple(keys), vals)


def make_arr(alg, rank, salt):
    import numpy as np
    from kingdon import MultiVector
    pk = point_keys(alg)
    shape = (len(pk), 2) if rank == 1 else (len(pk), 2, 2)
    vals = (np.arange(1, 1 + int(np.prod(shape)), dtype=float).reshape(shape) + salt) / 2.0
    return MultiVector.fromkeysvalues(alg, pk, vals)


def build_scene(algname, leaves, wrap):
    alg = mkalg(algname)
    mvs = []
    items = []
    for i, leaf in enumerate(leaves):
        if leaf == 'int':
            items.append(0xD0FFE1 + i)
        elif leaf == 'str':
            items.append(f'L{i}')
        elif leaf.startswith('mv:arr'):
            m = make_arr(alg, int(leaf[-1]), i)
            mvs.append(m)
            items.append(m)
        elif leaf.startswith('mv:'):
            _, layout, backing = leaf.split(':')
            m = make_mv(alg, layout, backing, i)
            mvs.append(m)
            items.append(m)
        elif leaf == 'call:mv':
            src = next((m for m in mvs if len(m) and len(m.shape) == 1), None)
            base = make_mv(alg, 'point', 'list', 5 + i)
            mvs.append(base)
            items.append((lambda s, b: (lambda: (s + b) if s is not None else b * 2))(src, base))
        elif leaf in ('call:partial', 'call:object'):
            # zero-argument callables that are not plain functions: functools.partial, an instance with __call__
            import functools
            base = make_mv(alg, 'point', 'list', 7 + i)
            mvs.append(base)
            if leaf == 'call:partial':
                items.append(functools.partial(lambda b, k: b * k, base, 2))
            else:
                class _Callable:
                    def __init__(self, b):
                        self.b = b

                    def __call__(self):
                        return [self.b, f'obj{id(self) % 7}'[:3]]
                items.append(_Callable(base))
        elif leaf == 'call:list':
            src = next((m for m in mvs if len(m) and len(m.shape) == 1), None)
            base = make_mv(alg, 'sparse', 'list', 9 + i)
            mvs.append(base)
            items.append((lambda s, b, i=i: (lambda: [b, f'c{i}', (s if s is not None else f'd{i}')]))(src, base))
    if wrap == 'plain':
        subjects = tuple(items)
    elif wrap == 'list':
        subjects = (0x224488, list(items))
    elif wrap == 'tuple':
        subjects = (tuple(items), 'T')
    else:
        subjects = ((lambda it: (lambda: list(it)))(items),)
    return alg, subjects, mvs


_OPEN = []


def open_widget(alg, *subjects, **options):
    """ipywidgets keeps every widget alive in a global registry until it is closed; the checks create hundreds of thousands."""
    w = alg.graph(*subjects, **options)
    _OPEN.append(w)
    return w


def close_widgets():
    while _OPEN:
        w = _OPEN.pop()
        try:
            w.close()
        except Exception:
            pass
    try:
        # anywidget connects one lambda per instance to the class-level file-contents signal of _esm (hot reload); nothing else
        # uses that signal here, and the lambdas keep every widget alive
        from kingdon.graph import GraphWidget
        GraphWidget._esm.changed.disconnect()
    except Exception:
        pass


def coeffs(mv):
    alg = mv.algebra
    out = []
    for name in alg.canon2bin:
        v = getattr(mv, name)
        out.append(v)
    return out


def elem_of(mv):
    return Element([float(v) for v in coeffs(mv)])


def expected(o):
    """Reference rendering: list of items this object contributes to its parent list."""
    from kingdon import MultiVector
    if isinstance(o, MultiVector):
        if len(o) and len(o.shape) > 1:
            return [elem_of(it) for it in o.itermv()]
        return [elem_of(o)]
    if isinstance(o, (list, tuple)):
        inner = []
        for v in o:
            inner.extend(expected(v))
        return [inner]
    if callable(o):
        return expected(o())
    return [o]


def expected_root(subjects):
    from kingdon import MultiVector
    if len(subjects) == 1 and callable(subjects[0]) and not isinstance(subjects[0], MultiVector):
        pre = subjects[0]()
        if not isinstance(pre, (list, tuple)):
            pre = [pre]
    else:
        pre = subjects
    out = []
    for s in pre:
        out.extend(expected(s))
    return out, pre


def same(a, b):
    if isinstance(a, Element) or isinstance(b, Element):
        return isinstance(a, Element) and isinstance(b, Element) and len(a) == len(b) and all(float(x) == float(y) for x, y in zip(a, b))
    if isinstance(a, list) and isinstance(b, list):
        return len(a) == len(b) and all(same(x, y) for x, y in zip(a, b))
    return type(a) == type(b) and a == b


def snapshot(mvs):
    return tuple(tuple(tuple(float(x) for x in (c.reshape(-1) if hasattr(c, 'reshape') else [c])) for c in coeffs(m)) if len(m) else () for m in mvs)


def short(x, n=300):
    s = repr(x)
    return s if len(s) < n else s[:n] + '...'


# ------------------------------------------------------------------------------------------------- checks
def classify(leaves, wrap):
    kinds = sorted({l.split(':')[1] + (':' + l.split(':')[2] if l.count(':') == 2 else '') if l.startswith('mv:') else l for l in leaves})
    return kinds


def check_static(res, algname, leaves, wrap, case):
    """Returns (widget, alg, subjects, mvs) or None."""
    alg, subjects, mvs = build_scene(algname, leaves, wrap)
    res.evals += 1
    desc = f'{algname} scene {leaves} wrap={wrap}'
    try:
        w = open_widget(alg, *subjects)
        subs = w.subjects
        key2idx = dict(w.key2idx)
    except Exception as e:
        kinds = [k for k in classify(leaves, wrap) if k.startswith(('empty', 'arr'))] or classify(leaves, wrap)[:1]
        res.violate(violation(f'render:raises:{type(e).__name__}:{"+".join(kinds)}', f'{desc}: building the widget payload raises {type(e).__name__}: {e}', case, 'a payload', repr(e)))
        return None
    canon = list(alg.canon2bin.values())
    if key2idx != {k: i for i, k in enumerate(canon)} or list(w.signature) != [int(s) for s in alg.signature]:
        res.violate(violation('describe:key2idx-signature', f'{desc}: key2idx/signature do not describe the algebra', case, {k: i for i, k in enumerate(canon)}, key2idx))
    names = list(alg.canon2bin)
    cay = w.cayley
    for i, ni in enumerate(names):
        for j, nj in enumerate(names):
            s = alg.signs[alg.canon2bin[ni], alg.canon2bin[nj]]
            nm = alg.bin2canon[alg.canon2bin[ni] ^ alg.canon2bin[nj]]
            want = '0' if not s else ('-' if s < 0 else '') + ('1' if nm == 'e' else nm)
            if cay[i][j] != want:
                res.violate(violation('describe:cayley', f'{desc}: cayley[{i}][{j}]', case, want, cay[i][j]))
                break
    try:
        D = decode(subs, key2idx)
    except Exception as e:
        res.violate(violation(f'decode:raises', f'{desc}: the front end cannot decode the payload: {type(e).__name__}: {e}', case, 'decodable', short(subs)))
        return None
    want, pre = expected_root(subjects)
    if not same(D, want):
        # find the first differing multivector kind for the cause signature
        kinds = classify(leaves, wrap)
        bad = first_diff(D, want)
        res.violate(violation(f'payload:{bad}:{culprit(leaves, D, want, subjects if wrap == "plain" else None)}', f'{desc}: decoded subjects differ from the multivectors given ({bad})', case, short(want), short(D)))
        return None
    if any(l.startswith('mv') or l.startswith('call') for l in leaves):
        res.nontrivial += 1
    # which subjects the front end may drag: the multivectors at the first level of nesting (the points, for 3D/4D PGA)
    from kingdon import MultiVector
    d = alg.d
    pga = alg.r == 1 and d in (3, 4)
    want_idx = [i for i, s_ in enumerate(pre) if isinstance(s_, MultiVector) and (not pga or (len(s_) and s_.grades == (d - 1,)))]
    if list(w.draggable_points_idxs) != want_idx:
        res.violate(violation(f'draggable-idxs:{wrap}', f'{desc}: draggable_points_idxs = {list(w.draggable_points_idxs)} but the first-level multivectors are at {want_idx}', case,
                              want_idx, list(w.draggable_points_idxs)))
        return None
    return w, alg, subjects, mvs, pre, key2idx


def first_diff(D, want):
    if isinstance(D, list) and isinstance(want, list) and not isinstance(D, Element) and not isinstance(want, Element):
        if len(D) != len(want):
            return 'structure'
        for a, b in zip(D, want):
            r = first_diff(a, b)
            if r:
                return r
        return ''
    if isinstance(D, Element) and isinstance(want, Element):
        return '' if same(D, want) else 'coefficients'
    return '' if same(D, want) else 'structure'


def culprit(leaves, D, want, subjects=None):
    """Leaf kind of the first top-level subject whose rendering differs (scenes are enumerated simplest first)."""
    if subjects is None or len(subjects) != len(leaves):
        return 'nested'
    off = 0
    for leaf, s in zip(leaves, subjects):
        try:
            items = expected(s)
        except Exception:
            return leaf
        got = D[off:off + len(items)] if isinstance(D, list) else None
        if got is None or len(got) != len(items) or not same(list(got), list(items)):
            return leaf
        off += len(items)
    return 'structure'


def drag_bfs(res, algname, leaves, wrap, depth, case0):
    from kingdon import MultiVector
    first = check_static(res, algname, leaves, wrap, case0)
    if first is None:
        return
    w, alg, subjects, mvs, pre, key2idx = first
    idxs = list(w.draggable_points_idxs)
    if not idxs:
        return
    desc = f'{algname} scene {leaves} wrap={wrap}'
    events = [(p, v) for p in range(len(idxs)) for v in range(len(DELTAS))]
    seen = {snapshot(mvs): ()}
    frontier = [()]
    for level in range(depth):
        nxt = []
        for hist in frontier:
            for ev in events:
                path = hist + (ev,)
                case = dict(case0, drags=[list(e) for e in path])
                # replay the path on a fresh scene (live widgets are not copied)
                alg, subjects, mvs = build_scene(algname, leaves, wrap)
                try:
                    w = open_widget(alg, *subjects)
                    ok = True
                    for step, (p, v) in enumerate(path):
                        ok = apply_drag(res, w, alg, subjects, mvs, p, v, desc, case, check=(step == len(path) - 1), leaves=leaves)
                        if not ok:
                            break
                except Exception as e:
                    res.violate(violation(f'drag:raises:{type(e).__name__}', f'{desc}: drag sequence {path} raises {type(e).__name__}: {e}', case, '', repr(e)))
                    ok = False
                res.transitions += 1
                close_widgets()
                if not ok:
                    continue
                k = snapshot(mvs)
                if k not in seen:
                    seen[k] = path
                    if ev[1] < 3:          # the fine adjustment is explored as a last step only (its successors differ by 2**-18)
                        nxt.append(path)
        frontier = nxt
    res.states += len(seen)
    res.count('scenes_with_draggable_points')
    if len(res.samples) < 2 and len(seen) > 3:
        res.sample({'alg': algname, 'scene': leaves, 'wrap': wrap, 'draggable_idxs': idxs, 'states': len(seen), 'example_path': [list(e) for e in max(seen.values(), key=len)]})


def apply_drag(res, w, alg, subjects, mvs, p, v, desc, case, check, leaves):
    key2idx = dict(w.key2idx)
    idxs = list(w.draggable_points_idxs)
    D = decode(w.subjects, key2idx)
    pre = w.pre_subjects
    target = pre[idxs[p]]
    # the front end addresses canvas.value[i]: it must be the element of the same multivector
    for i in idxs:
        arrv = len(pre[i]) and len(pre[i].shape) > 1
        if arrv or i >= len(D) or not isinstance(D[i], Element) or not same(D[i], elem_of(pre[i])):
            if check:
                kinds = [l for l in leaves if l.startswith('mv:arr')] or ['other']
                res.violate(violation(f'drag:index-misaligned:{kinds[0]}', f'{desc}: front-end index {i} does not address the multivector pre_subjects[{i}] (an earlier subject expands to several '
                                      f'elements or none)', case, 'the element of pre_subjects[i]', short(D[i] if i < len(D) else None)))
            return False
    new = Element(D[idxs[p]])
    stored = [key2idx[k] for k in target.keys()]
    # an integer ndarray cannot hold fractional coordinates (numpy truncates on assignment): displace those by whole numbers
    tv = target.values()
    integral = hasattr(tv, 'dtype') and tv.dtype.kind in 'iu'
    for j, pos in enumerate(stored):
        new[pos] = new[pos] + (float(round(DELTAS[v] * 2)) if integral else DELTAS[v]) * (1 + j)
    values = list(D)
    values[idxs[p]] = new
    before = snapshot(mvs)
    others_before = [(m, tuple(map(repr, coeffs(m)))) for m in mvs if m is not target and len(m)]
    w.draggable_points = report(values, idxs)
    if not check:
        return True
    got = [float(x) for x in coeffs(target)]
    if got != [float(x) for x in new]:
        lay = next((l for l, m in zip([l for l in leaves if l.startswith('mv:') or l.startswith('call')], mvs) if m is target), 'mv')
        res.violate(violation(f'drag:writeback:{lay}', f'{desc}: after dragging point {p} the original multivector does not hold the reported coefficients', case, list(new), got))
        return False
    for m, snap in others_before:
        if tuple(map(repr, coeffs(m))) != snap:
            res.violate(violation('drag:touches-other-multivector', f'{desc}: dragging point {p} changed another multivector', case, snap, tuple(map(repr, coeffs(m)))))
            return False
    D2 = decode(w.subjects, key2idx)
    want, _ = expected_root(subjects)
    if not same(D2, want):
        res.violate(violation('drag:subjects-not-refreshed', f'{desc}: after the drag the subjects do not reflect the live scene (callables re-evaluated)', case, short(want), short(D2)))
        return False
    return True


def run_shard(shard):
    res = Result()
    if shard.get('kind') == 'describe':
        for a in shard['seq']:
            check_static(res, a, ['mv:point:list', 'int'], 'plain', {'alg': a, 'leaves': ['mv:point:list', 'int'], 'wrap': 'plain', 'depth': 0, 'describe_seq': shard['seq']})
        close_widgets()
        d = res.asdict()
        d['traces'] = d['transitions']
        return d
    algname = shard['alg']
    for leaves in shard['scenes']:
        wraps = WRAPS if len(leaves) <= 2 else ['plain']
        for wrap in wraps:
            case = {'alg': algname, 'leaves': leaves, 'wrap': wrap, 'depth': shard['depth']}
            depth = shard['depth'] + (1 if len(leaves) <= 1 and shard['depth'] < 3 else 0)
            if shard['depth'] >= 3:          # thorough: depth 3 up to two leaves, 2 for three leaves, 1 for four
                depth = {1: 3, 2: 3, 3: 2}.get(len(leaves), 1)
            if wrap in ('plain', 'rootcall'):
                drag_bfs(res, algname, leaves, wrap, depth if wrap == 'plain' else 1, case)
            else:
                check_static(res, algname, leaves, wrap, case)
            close_widgets()
    # camera option
    alg = mkalg(algname)
    cam = make_mv(alg, 'permuted', 'list', 3)
    res.evals += 1
    try:
        w = open_widget(alg, 0xFF, camera=cam)
        c = decode(w.options['camera'], dict(w.key2idx))
        if not same(c, elem_of(cam)):
            res.violate(violation('camera', f'{algname}: options.camera does not decode to the multivector given', {'alg': algname, 'leaves': [], 'wrap': 'camera', 'depth': 0}, short(elem_of(cam)), short(c)))
    except Exception as e:
        res.violate(violation('camera:raises', f'{algname}: camera option: {type(e).__name__}: {e}', {'alg': algname, 'leaves': [], 'wrap': 'camera', 'depth': 0}, '', repr(e)))
    close_widgets()
    d = res.asdict()
    d['traces'] = d['transitions']
    return d


def replay(case):
    if case.get('describe_seq'):
        return run_shard({'alg': case['alg'], 'kind': 'describe', 'seq': case['describe_seq']})
    if case.get('wrap') == 'camera':
        return run_shard({'alg': case['alg'], 'scenes': [], 'depth': 0})
    return run_shard({'alg': case['alg'], 'scenes': [case['leaves']], 'depth': case.get('depth', 2)})
