"""C11  Registered (compiled) expressions equal direct evaluation.

Programs are expression trees over two arguments, written as real source text, compiled with exec and registered with
alg.register(f) (and alg.register(symbolic=True)(f) for depth 1 and a depth-2 core); enumerated completely to depth 2.
"""
import math
from fractions import Fraction
from itertools import combinations

from ..common import Result, nmv, mvdict, show, close
from ..harness import violation, merge
from ..spaces import chunks

PID = 'C11'
LEVEL = 'exploration'
RULE = ('cases = (algebra, program = expression tree as source text, registration mode numeric/symbolic, argument layouts, value type); '
        'programs enumerated completely per depth from the grammar of the statement (in-grammar: registered result must equal direct '
        'evaluation; out-of-grammar constructs: registered call may raise but must not return a different value). distinct = distinct '
        '(algebra, program, mode, layout); non-trivial = direct evaluation returns a non-zero element. A deeper program containing a construct '
        'that already fails at depth 1 is counted as subsumed, not re-reported.')
ASSUMPTIONS = ['direct evaluation f(args) is the reference (its operators are decided by C02-C08); cases where direct evaluation raises are skipped',
               'comparison with relative tolerance 1e-9 (composed generated functions perform the same arithmetic in a different association)']
BOUNDS = {
    'quick': 'depth 1 complete (numeric and symbolic registration) in Algebra(2), Algebra(2,0,1), Algebra(1,1,1) x 4 argument layouts x {Fraction, float}; '
             'depth 2: every unary template over every depth-1 expression and a binary core, Algebra(2) x 2 layouts',
    'thorough': 'depth 2 complete: unary(E1), binary(E1,arg), binary(arg,E1) for all in-grammar templates in 3 algebras x 4 layouts; symbolic registration '
                'for depth 1 and the depth-2 core; three-argument programs',
}

BIN_INFIX = ['*', '|', '^', '&', '>>', '@', '+', '-', '/']
BIN_METH = ['gp', 'sw', 'cp', 'acp', 'ip', 'sp', 'lc', 'rc', 'op', 'rp', 'proj', 'add', 'sub', 'div']
UN_METH = ['inv', 'neg', 'reverse', 'involute', 'conjugate', 'sqrt', 'polarity', 'unpolarity', 'hodge', 'unhodge', 'normsq',
           'outerexp', 'outersin', 'outercos', 'outertan']

ALGS = {'vga2': (2, 0, 0), 'pga2': (2, 0, 1), 'mix3': (1, 1, 1)}


def unary_templates(d):
    """(construct id, template with {0}, in_grammar)"""
    t = [(f'method:{m}', '{0}.' + m + '()', True) for m in UN_METH]
    t += [('op:~', '(~{0})', True), ('op:neg', '(-{0})', True)]
    t += [('dual', '{0}.dual()', True), ('undual', '{0}.undual()', True), ('norm', '{0}.norm()', True), ('normalized', '{0}.normalized()', True),
          ('dual:hodge', "{0}.dual(kind='hodge')", True), ('undual:hodge', "{0}.undual(kind='hodge')", True),
          ('dual:polarity', "{0}.dual(kind='polarity')", True), ('undual:polarity', "{0}.undual(kind='polarity')", True)]
    for n in range(0, d + 2):
        for gs in combinations(range(d + 1), n):
            if n >= 1:
                t.append((f'grade:args{n}', '{0}.grade(' + ', '.join(map(str, gs)) + ')', True))
            t.append((f'grade:tuple{n}', '{0}.grade((' + ''.join(f'{g}, ' for g in gs) + '))', True))
    t += [('num:left*', '(2*{0})', True), ('num:right*', '({0}*2)', True), ('num:left+', '(2+{0})', True), ('num:right+', '({0}+2)', True),
          ('num:left-', '(2-{0})', True), ('num:right-', '({0}-2)', True), ('num:/', '({0}/2)', True), ('num:float*', '(-1.5*{0})', True),
          ('num:*0', '({0}*0)', True)]
    t += [(f'pow:{n}', '({0}**' + (f'({n})' if n < 0 else str(n)) + ')', True) for n in (-2, -1, 0, 1, 2, 3)]
    # method forms of the products / sum / difference / quotient with a plain number
    t += [(f'method-num:{m}', '{0}.' + m + '(2)', True) for m in ('gp', 'ip', 'op', 'lc', 'rc', 'sp', 'cp', 'acp', 'add', 'sub', 'div', 'sw', 'proj', 'rp')]
    # outside the grammar of the statement: the registered function may raise, but must not return a different value
    t += [('x:num|', '(2|{0})', False), ('x:num&', '(2&{0})', False), ('x:num>>', '(2>>{0})', False), ('x:num@', '(2@{0})', False),
          ('x:num/', '(2/{0})', False), ('x:num^', '(2^{0})', False), ('x:^num', '({0}^2)', False), ('x:|num', '({0}|2)', False),
          ('x:&num', '({0}&2)', False), ('x:>>num', '({0}>>2)', False), ('x:@num', '({0}@2)', False), ('x:pow0.5', '({0}**0.5)', False),
          ('x:pow1.5', '({0}**1.5)', False), ('x:exp', '{0}.exp()', False), ('x:asfullmv', '{0}.asfullmv()', False),
          ('x:filter', '{0}.filter()', False), ('x:map', '{0}.map(lambda v: 2*v)', False), ('x:getitem', '{0}[0]', False)]
    return t


def binary_templates():
    t = [(f'infix:{o}', '({0}' + o + '{1})', True) for o in BIN_INFIX]
    t += [(f'method:{m}', '{0}.' + m + '({1})', True) for m in BIN_METH]
    t += [('call:g', 'g({0}, {1})', True)]
    t += [('x:==', '({0}=={1})', False)]
    return t


def coeff_templates(alg):
    """Coefficient access used as factor / summand (in grammar)."""
    names = list(alg.canon2bin)
    picks = [names[0], names[1], names[-1], names[len(names) // 2]]
    t = []
    for b in dict.fromkeys(picks):
        t += [(f'coeff:factor-left', f'(x.{b}*y)', True), ('coeff:factor-right', f'(y*x.{b})', True), ('coeff:summand', f'(x.{b}+y)', True),
              ('coeff:alone', f'x.{b}', True), ('coeff:product', f'(x.{b}*y.{b})', True)]
    two = [n for n in names if len(n) == 3]
    if two:
        sp = 'e' + two[0][2] + two[0][1]
        t += [('coeff:permuted-spelling', f'(x.{sp}*y)', True)]
    three = [n for n in names if len(n) == 4]
    if three:
        from itertools import permutations
        for perm in list(permutations(three[0][1:]))[1:]:
            t += [('coeff:permuted-spelling3', f"(x.e{''.join(perm)}*y)", True)]
    return t


def big_powers():
    """Larger exponents (numeric registration, depth 1 only: the symbolic optimisation of x**9 takes minutes)."""
    return [(f'pow:{n}', f'(x**({n}))', True) for n in (-6, -5, 4, 5, 6, 7, 9, 10)]


def depth1(alg):
    out = []
    for cid, tpl, ing in unary_templates(alg.d):
        out.append((cid, tpl.format('x'), ing))
    for cid, tpl, ing in binary_templates():
        out.append((cid, tpl.format('x', 'y'), ing))
        if tpl.format('x', 'y') != tpl.format('y', 'x'):
            out.append((cid, tpl.format('y', 'x'), ing))
    out += coeff_templates(alg)
    out += [('call:g-nested', '(g(x, y)*x)', True), ('call:g-twice', '(g(y, x)+g(x, y))', True)]
    return out


def depth2(alg, core=False):
    """unary(E1) and binary(E1, arg) / binary(arg, E1) over in-grammar depth-1 expressions."""
    # number-valued subexpressions (a bare coefficient, a product of coefficients) are not operands of multivector operators
    # in the grammar of the statement (python would apply int/float semantics to them, e.g. ~0 == -1)
    e1 = [(cid, src) for cid, src, ing in depth1(alg) if ing and cid not in ('coeff:alone', 'coeff:product')]
    un = [(c, t) for c, t, ing in unary_templates(alg.d) if ing]
    bi = [(c, t) for c, t, ing in binary_templates() if ing]
    if core:
        keep = {'method:inv', 'op:~', 'normalized', 'grade:args1', 'num:left-', 'pow:-1', 'pow:2', 'method:outerexp', 'method:hodge', 'norm'}
        un = [(c, t) for c, t in un if c in keep]
        bi = [(c, t) for c, t in bi if c in {'infix:*', 'infix:>>', 'infix:/', 'infix:-', 'method:cp', 'method:proj', 'call:g', 'infix:&'}]
        e1 = e1[::3]
    out = []
    for c1, src in e1:
        for c, t in un:
            out.append(((c, c1), t.format(f'({src})'), True))
        for c, t in bi:
            for arg in ('x', 'y'):
                out.append(((c, c1), t.format(f'({src})', arg), True))
                out.append(((c, c1), t.format(arg, f'({src})'), True))
    return out


def layouts_for(alg, which):
    c = tuple(alg.canon2bin.values())
    from ..spaces import grade_of as g
    vec = tuple(k for k in c if g(k) == 1)
    even = tuple(k for k in c if g(k) % 2 == 0)
    L = {'dense': c, 'even': even, 'vector': vec, 'revsparse': tuple(reversed((c[1], c[-1], c[len(c) // 2]))), 'blade': (c[2],)}
    return [(n, L[n]) for n in which]


def make_args(alg, lx, ly, vtype):
    conv = (lambda v: Fraction(v)) if vtype == 'Fraction' else float
    xv = [conv(Fraction(3 + 2 * i, 2 + (i % 3))) for i in range(len(lx))]
    yv = [conv(Fraction(-5 + 3 * i, 3 + (i % 2))) for i in range(len(ly))]
    return nmv(alg, lx, xv), nmv(alg, ly, yv)


def as_elem(v):
    from kingdon import MultiVector
    if isinstance(v, MultiVector):
        return mvdict(v)[0]
    if isinstance(v, (int, float, Fraction, complex)):
        return {0: v}
    raise TypeError(f'not an element: {type(v).__name__}')


def finite(d):
    try:
        return all(math.isfinite(abs(complex(v))) for v in d.values())
    except Exception:
        return False


def compile_prog(src, name, g):
    ns = {'g': g}
    exec(f'def {name}(x, y):\n    return {src}\n', ns)
    return ns[name]


def run_programs(task):
    algname, progs, lay_names, vtypes, modes, known_bad = task
    from kingdon import Algebra
    res = Result()
    p, q, r = ALGS[algname]
    counter = [0]

    def fresh():
        alg = Algebra(p, q, r)

        def g_src(a, b):
            return a * b + a
        g_src.__name__ = 'gfun'
        return alg, alg.register(g_src)
    alg, g = fresh()
    lays = layouts_for(alg, lay_names)
    for cid, src, ing in progs:
        sub = cid if isinstance(cid, str) else cid[0]
        parts = [cid] if isinstance(cid, str) else list(cid)
        for mode in modes:
            if any((c, mode) in known_bad for c in parts) and not isinstance(cid, str):
                res.count('subsumed')
                continue
            for (lnx, lx) in lays:
                for (lny, ly) in lays[:2]:
                    for vt in vtypes:
                        counter[0] += 1
                        name = f'p{counter[0]}'
                        x, y = make_args(alg, lx, ly, vt)
                        fdirect = compile_prog(src, name, lambda a, b: a * b + a)
                        try:
                            want = as_elem(fdirect(x, y))
                        except Exception:
                            res.skipped += 1
                            continue
                        if not finite(want):
                            res.skipped += 1
                            continue
                        res.evals += 1
                        if any(v != 0 for v in want.values()):
                            res.nontrivial += 1
                        f = compile_prog(src, name, g)
                        outcome = attempt(alg, f, x, y, mode)
                        if outcome[0] == 'timeout':
                            res.count('symbolic_timeouts')
                            res.skipped += 1
                            break
                        verdict = judge(outcome, want, ing)
                        if verdict:
                            # classify on a fresh algebra (rules out history effects, which C09 owns)
                            alg2, g2 = fresh()
                            x2, y2 = make_args(alg2, lx, ly, vt)
                            out2 = attempt(alg2, compile_prog(src, name, g2), x2, y2, mode)
                            v2 = judge(out2, want, ing)
                            key = f"{mode}:{'+'.join(parts) if not isinstance(cid, str) else cid}:{v2 or 'history-dependent:' + verdict}"
                            case = {'alg': algname, 'src': src, 'cid': cid, 'in_grammar': ing, 'mode': mode, 'layouts': [lnx, lny], 'vtype': vt}
                            obs = out2 if v2 else outcome
                            res.violate(violation(key, f'{algname} {mode} register: `{src}` on layouts {lnx},{lny} ({vt}): {v2 or verdict}', case, show(want),
                                                  obs[1] if obs[0] != 'ok' else show(obs[1]),
                                                  f"from fractions import Fraction\nfrom kingdon import Algebra\nalg = Algebra{(p, q, r)}\n"
                                                  f"g = alg.register(lambda a, b: a*b + a, name='gfun')\nf = lambda x, y: {src}\n"
                                                  f"x = alg.multivector(keys={lx}, values={[str(v) for v in x.values()]})  # values as {vt}\n"
                                                  f"y = alg.multivector(keys={ly}, values={[str(v) for v in y.values()]})\n"
                                                  f"print(f(x, y)); print(alg.register(f{', symbolic=True' if mode == 'symbolic' else ''})(x, y))"))
                        elif len(res.samples) < 2 and not isinstance(cid, str):
                            res.sample({'alg': algname, 'program': src, 'mode': mode, 'layouts': [lnx, lny], 'direct': show(want)})
    return res.asdict()


class _Timeout(Exception):
    pass


def _alarm(signum, frame):
    raise _Timeout()


SYMBOLIC_TIME_LIMIT = 20      # seconds per symbolic registration (symbolic optimisation of long expressions can take hours)


def attempt(alg, f, x, y, mode):
    import signal
    old = None
    if mode == 'symbolic':
        old = signal.signal(signal.SIGALRM, _alarm)
        signal.alarm(SYMBOLIC_TIME_LIMIT)
    try:
        reg = alg.register(f) if mode == 'numeric' else alg.register(symbolic=True)(f)
        return ('ok', as_elem(reg(x, y)))
    except _Timeout:
        return ('timeout', 'symbolic optimisation exceeded the time limit')
    except Exception as e:
        return ('exc', f'{type(e).__name__}: {e}'[:200])
    finally:
        if mode == 'symbolic':
            signal.alarm(0)
            signal.signal(signal.SIGALRM, old)


def judge(outcome, want, in_grammar):
    """None if acceptable, else a short verdict."""
    if outcome[0] == 'timeout':
        return None
    if outcome[0] == 'exc':
        return None if not in_grammar else 'raises ' + outcome[1].split(':')[0]
    got = outcome[1]
    for k in set(got) | set(want):
        if not close(got.get(k, 0), want.get(k, 0), 1e-9):
            return 'wrong-value'
    return None


def drive(ctx):
    tier = ctx.tier
    from kingdon import Algebra
    algs = list(ALGS)
    all_l = ['dense', 'even', 'vector', 'revsparse']
    known_bad = set()
    # phase 1: depth 1 complete, both registration modes
    tasks = []
    for a in algs:
        alg = Algebra(*ALGS[a])
        d1 = depth1(alg)
        for ch in chunks(d1 + big_powers(), 12):
            tasks.append((a, ch, all_l, ['Fraction', 'float'], ['numeric'], ()))
        for ch in chunks(d1, 16):
            tasks.append((a, ch, ['dense', 'blade', 'vector'], ['Fraction'], ['symbolic'], ()))
    for out in ctx.map('run_programs', tasks):
        for v in out['violations']:
            if isinstance(v['case']['cid'], str):
                known_bad.add((v['case']['cid'], v['case']['mode']))
        merge(ctx.agg, out)
    ctx.strata['depth 1 complete (numeric + symbolic registration)'] = {'evaluations': ctx.agg['evals'], 'complete': True}
    e0 = ctx.agg['evals']
    # phase 2: depth 2
    tasks = []
    kb = tuple(sorted(known_bad))
    if tier == 'quick':
        alg = Algebra(*ALGS['vga2'])
        d2 = depth2(alg)
        for ch in chunks(d2, 96):
            tasks.append(('vga2', ch, ['dense', 'revsparse'], ['Fraction'], ['numeric'], kb))
        alg = Algebra(*ALGS['pga2'])
        for ch in chunks(depth2(alg, core=True), 32):
            tasks.append(('pga2', ch, ['even', 'vector'], ['Fraction'], ['numeric'], kb))
    else:
        for a in algs:
            alg = Algebra(*ALGS[a])
            for ch in chunks(depth2(alg), 256):
                tasks.append((a, ch, ['dense', 'revsparse', 'vector'] if a != 'mix3' else ['dense', 'revsparse'], ['Fraction'], ['numeric'], kb))
            for ch in chunks(depth2(alg, core=True), 64):
                tasks.append((a, ch, ['dense', 'vector'], ['float'], ['numeric', 'symbolic'] if a == 'vga2' else ['numeric'], kb))
    for out in ctx.map('run_programs', tasks):
        merge(ctx.agg, out)
    ctx.strata['depth 2: unary(E1), binary(E1,arg), binary(arg,E1)'] = {'evaluations': ctx.agg['evals'] - e0, 'complete': True}
    ctx.agg['extra']['constructs_failing_at_depth_1'] = sorted(f'{m}:{c}' for c, m in known_bad)


def replay(case):
    cid = case['cid'] if isinstance(case['cid'], str) else tuple(case['cid'])
    return run_programs((case['alg'], [(cid, case['src'], case['in_grammar'])], case['layouts'] + [l for l in ['dense', 'even'] if l not in case['layouts']],
                         [case['vtype']], [case['mode']], ()))
