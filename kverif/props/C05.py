"""C05  Duality maps invert each other and define the regressive product."""
from .. import spaces, binprog
from ..common import Result, gmv, nmv, mvdict, eq_elem, show, cfg_name, cfg_repro
from ..harness import violation
from ..oracle import make_algebra, ref_from_config, mv_to_ref, Ref
from ..ring import P, Trap, iszero, same

PID = 'C05'
LEVEL = 'exploration'
RULE = ('cases = (configuration, clause, operand key tuple(s)) on the generic point (unit coefficients for the blade-level '
        'clause), enumerated completely per stratum; clauses: E^hodge(E)=J, unhodge.hodge = hodge.unhodge = id, polarity = '
        'x*J^-1 (and ZeroDivisionError iff degenerate), unpolarity inverse, a&b = unhodge(hodge a ^ hodge b), J identity of &, '
        'dual/undual kind selection, agreement with the reference Hodge dual defined from J. distinct = distinct '
        '(configuration, clause, keys); non-trivial = the operand is non-empty and the expected result non-zero.')
ASSUMPTIONS = ['the elementary operators used in the literal compositions are those checked by C02-C04 and C07']
BOUNDS = {
    'quick': 'sig(d) d<=4 x every single blade; sig(d) d<=2 x T(d); 6 configurations d=3 x S(3) <=3 blades; custom bases: all d<=2, '
             '<=1 deviation d=3, named; rp: subsets <=2 blades d<=3',
    'thorough': 'sig(d) d<=6 blade level; sig(3) x S(3) complete; pqr(4) grade blocks; all 1728 custom bases of d=3 (blade level, 3 signatures); '
                'rp: d=3 subsets <=3 blades, d=4 grade blocks',
}


def shards(tier, seed):
    sh = []
    maxd = 4 if tier == 'quick' else 6
    for d in range(maxd + 1):
        cfgs = [spaces.cfg_sig(s) for s in spaces.sig(d)]
        n = {0: 1, 1: 1, 2: 1, 3: 3, 4: 16, 5: 48, 6: 128}[d]
        for ch in spaces.chunks(cfgs, n):
            sh.append(dict(stratum=f'all signature orderings d<={maxd}: every single blade, all clauses', cfgs=ch, ops=['B']))
    for d in (1, 2):
        for s in spaces.sig(d):
            sh.append(dict(stratum='d<=2 all orderings: every ordered key tuple', cfgs=[spaces.cfg_sig(s)], ops=['T']))
    d3 = [spaces.cfg_pqr(3, 0, 0), spaces.cfg_pqr(2, 0, 1), spaces.cfg_pqr(1, 1, 1), spaces.cfg_pqr(1, 0, 2), spaces.cfg_sig([1, 0, -1]), spaces.cfg_sig([-1, -1, 1])]
    if tier == 'thorough':
        d3 = [spaces.cfg_sig(s) for s in spaces.sig(3)]
    for c in d3:
        sh.append(dict(stratum='d=3: canonical subsets' + (' (all 256, all 27 orderings)' if tier == 'thorough' else ' of <=3 blades'),
                       cfgs=[c], ops=['S', None if tier == 'thorough' else 3]))
        sh.append(dict(stratum='regressive product d=3', cfgs=[c], rp=['S', 2 if tier == 'quick' else 3], nch=1))
    for s in spaces.sig(2):
        sh.append(dict(stratum='regressive product d<=2: ordered tuples <=2 blades', cfgs=[spaces.cfg_sig(s)], rp=['T', 2]))
    # exact coefficient types (python integers beyond 2**53, Fractions): all clauses on grade blocks and single blades
    for c in [spaces.cfg_pqr(2, 0, 0), spaces.cfg_pqr(1, 1, 0), spaces.cfg_pqr(3, 0, 0), spaces.cfg_pqr(1, 2, 0), spaces.cfg_pqr(2, 0, 1), spaces.cfg_pqr(4, 0, 0), spaces.cfg_pqr(1, 3, 0),
              spaces.NAMED['2DPGA']]:
        sh.append(dict(stratum='exact coefficient types (21-digit integers, Fractions): single blades, grade blocks, dense', cfgs=[c], ops=['B'], values='exact'))
        sh.append(dict(stratum='exact coefficient types (21-digit integers, Fractions): single blades, grade blocks, dense', cfgs=[c], ops=['G'], values='exact'))
    # custom bases
    cb = []
    for d in (1, 2):
        cb += [spaces.cfg_sig(s, basis=b) for b in spaces.all_bases(d) for s in spaces.sig(d)]
    cb += [spaces.cfg_sig(s, basis=b) for b in spaces.bases_by_deviation(3, 1)[1:] for s in ([1, 1, 1], [0, 1, 1], [1, -1, 0])]
    if tier == 'thorough':
        cb += [spaces.cfg_sig(s, basis=b) for b in spaces.all_bases(3) for s in ([1, 1, 1], [0, 1, -1], [-1, 0, 0])]
        cb += [spaces.cfg_sig(s, basis=b) for b in spaces.bases_by_deviation(4, 1)[1:] for s in ([1, 1, 1, 1], [0, 1, 1, 1], [1, -1, 0, 1])]
    for ch in spaces.chunks(cb, max(1, len(cb) // 40)):
        sh.append(dict(stratum='custom bases (pseudoscalar may be oriented differently): single blades + rp of blade pairs', cfgs=ch, ops=['B'], rpblades=True))
    sh.append(dict(stratum='named algebras', cfgs=[spaces.NAMED['2DPGA'], spaces.NAMED['3DPGA']], ops=['B'], rpblades=True))
    sh.append(dict(stratum='named algebras', cfgs=[spaces.NAMED['2DPGA']], ops=['S', 3]))
    sh.append(dict(stratum='named algebras', cfgs=[spaces.NAMED['2DPGA']], rp=['S', 2]))
    if tier == 'thorough':
        for t in spaces.pqr(4):
            sh.append(dict(stratum='d=4 pqr: grade blocks, all clauses + rp', cfgs=[spaces.cfg_pqr(*t)], ops=['G']))
            sh.append(dict(stratum='d=4 pqr: grade blocks, all clauses + rp', cfgs=[spaces.cfg_pqr(*t)], rp=['G']))
        sh.append(dict(stratum='named algebras', cfgs=[spaces.NAMED['3DPGA']], rp=['S', 2]))
        sh.append(dict(stratum='named algebras', cfgs=[spaces.NAMED['STAP']], ops=['B']))
    # cross-algebra histories: algebras of equal dimension and different metric one after the other in one process, also in reverse order
    for d in (2, 3):
        sh.append(dict(stratum='all signature orderings of d=2,3 in one process in reverse order (blade level)', cfgs=[spaces.cfg_sig(s) for s in reversed(spaces.sig(d))], ops=['B']))
    return sh


def ref_to_keys(alg, ref, x):
    """reference dict -> {kingdon key: coeff} through the named blades."""
    out = {}
    for k, name in alg.bin2canon.items():
        s, B = ref.name_to_blade(name)
        if B in x:
            out[k] = x[B] if s > 0 else -x[B]
    return out


def check_unary_clauses(alg, ref, cfg, keys, res, shard, unit=False):
    name = cfg_name(cfg)
    case = {'shard': {'stratum': shard['stratum'], 'cfgs': [cfg], 'ops': ['list', [list(keys)]], 'values': shard.get('values')}}
    head = f"from kingdon import Algebra\nalg = {cfg_repro(cfg)}\nx = alg.multivector(keys={tuple(keys)}, name='x')\n"
    if shard.get('values') == 'exact':
        # exact coefficient types: 21-digit python integers and Fractions must come back exactly (no detour through floats)
        from fractions import Fraction
        vals = [(10 ** 20 + 1 + 2 * i) if i % 2 == 0 else Fraction(10 ** 17 + i, 3) for i in range(len(keys))]
        x = nmv(alg, keys, vals)
        head = f"from fractions import Fraction\nfrom kingdon import Algebra\nalg = {cfg_repro(cfg)}\nx = alg.multivector(keys={tuple(keys)}, values={vals!r})\n"
        unit = False
        name += ' [exact values]'
    else:
        x = nmv(alg, keys, [1] * len(keys)) if unit else gmv(alg, keys, 'x')
    xd = dict(zip(keys, x.values()))
    full = len(alg) - 1
    J = alg.pss
    nondeg = alg.signs[full, full] != 0
    degenerate_cfg = any(m == 0 for m in ref.metric)

    def V(key, what, exp, got, extra=''):
        res.violate(violation(key, f'{name} keys {tuple(keys)}: {what}', case, exp, got, head + extra))

    def elem(th, key, what):
        res.evals += 1
        try:
            return mvdict(th())[0]
        except Trap as e:
            V(key + ':trap', f'{what}: {e}', 'value independent control flow', str(e))
        except Exception as e:
            V(key + ':raises', f'{what} raises {type(e).__name__}: {e}', 'a value', repr(e))
        return None

    if keys:
        res.nontrivial += 1
    # hodge / unhodge round trips and agreement with the reference Hodge dual defined from J
    h = elem(lambda: x.hodge(), 'hodge', 'hodge')
    if h is not None:
        want = ref_to_keys(alg, ref, ref.hodge(mv_to_ref(alg, ref, x)))
        if eq_elem(h, want):
            V('hodge:ref', 'hodge differs from the reference dual defined by E ^ *E = J', show(want), show(h), 'print(x.hodge())')
        r1 = elem(lambda: x.hodge().unhodge(), 'unhodge.hodge', 'unhodge(hodge(x))')
        if r1 is not None and eq_elem(r1, xd):
            V('unhodge.hodge', 'unhodge(hodge(x)) != x', show(xd), show(r1), 'print(x.hodge().unhodge())')
    r2 = elem(lambda: x.unhodge().hodge(), 'hodge.unhodge', 'hodge(unhodge(x))')
    if r2 is not None and eq_elem(r2, xd):
        V('hodge.unhodge', 'hodge(unhodge(x)) != x', show(xd), show(r2), 'print(x.unhodge().hodge())')
    # E ^ hodge(E) = J for single blades
    if len(keys) == 1 and unit:
        w = elem(lambda: x ^ x.hodge(), 'E^hodge', 'E ^ hodge(E)')
        jd, _ = mvdict(J)
        if w is not None and eq_elem(w, jd):
            V('E^hodge(E)=J', 'E ^ hodge(E) is not the pseudoscalar', show(jd), show(w), 'print(x ^ x.hodge(), alg.pss)')
    # polarity
    res.evals += 1
    try:
        p = mvdict(x.polarity())[0]
        raised = None
    except ZeroDivisionError:
        p, raised = None, 'ZeroDivisionError'
    except Exception as e:
        p, raised = None, type(e).__name__
    # the other entry points of the same operation: the algebra-level call and a registered expression
    def _pol(a):
        return a.polarity()
    for ename, th in (('alg.polarity(x)', lambda: alg.polarity(x)), ('registered x.polarity()', lambda: alg.register(_pol)(x))):
        if shard.get('values') == 'exact' or (ename.startswith('registered') and not unit):
            continue
        res.evals += 1
        try:
            p2, r2 = mvdict(th())[0], None
        except ZeroDivisionError:
            p2, r2 = None, 'ZeroDivisionError'
        except Exception as e:
            p2, r2 = None, type(e).__name__
        if degenerate_cfg and r2 != 'ZeroDivisionError':
            V('polarity:degenerate-must-raise:' + ename.split('(')[0].split()[0], f'{ename} in a degenerate metric must raise ZeroDivisionError', 'ZeroDivisionError', r2 or show(p2), f'print({ename})')
        elif not degenerate_cfg and not raised and (r2 or eq_elem(p2, p)):
            V('polarity:entry-points-differ:' + ename.split('(')[0].split()[0], f'{ename} differs from x.polarity()', show(p), r2 or show(p2), f'print({ename}, x.polarity())')
    if degenerate_cfg:
        if raised != 'ZeroDivisionError':
            V('polarity:degenerate-must-raise', 'polarity in a degenerate metric must raise ZeroDivisionError', 'ZeroDivisionError', raised or show(p), 'print(x.polarity())')
    else:
        if raised:
            V('polarity:raises', f'polarity raises {raised} in a non-degenerate metric', 'x * J^-1', raised, 'print(x.polarity())')
        else:
            # (with exact values the literal form is not asked: kingdon's numeric inverse divides and may return floats)
            lit = elem(lambda: x * J.inv(), 'x*Jinv', 'x * J.inv()') if shard.get('values') != 'exact' else None
            if lit is not None and eq_elem(p, lit):
                V('polarity=x*Jinv', 'polarity(x) != x * inverse(pseudoscalar)', show(lit), show(p), 'print(x.polarity(), x*alg.pss.inv())')
            want = ref_to_keys(alg, ref, ref.polarity(mv_to_ref(alg, ref, x)))
            if eq_elem(p, want):
                V('polarity:ref', 'polarity differs from reference x*J^-1', show(want), show(p), 'print(x.polarity())')
            for nm, th in (('unpolarity.polarity', lambda: x.polarity().unpolarity()), ('polarity.unpolarity', lambda: x.unpolarity().polarity())):
                r = elem(th, nm, nm)
                if r is not None and eq_elem(r, xd):
                    V(nm, f'{nm}(x) != x', show(xd), show(r))
    # dual()/undual() kind selection
    r = sum(1 for m in ref.metric if m == 0)
    for meth, pol, hod in (('dual', 'polarity', 'hodge'), ('undual', 'unpolarity', 'unhodge')):
        if r in (0, 1):
            sel = pol if r == 0 else hod
            a = elem(lambda: getattr(x, meth)(), meth, f'{meth}()')
            b = elem(lambda: getattr(x, sel)(), sel, sel)
            if a is not None and b is not None and eq_elem(a, b):
                V(f'{meth}:auto', f'{meth}() does not select {sel} for r={r}', show(b), show(a), f'print(x.{meth}(), x.{sel}())')
        if r >= 2:
            # 'exactly one null generator' selects Hodge duality: with two or more, auto mode must not silently pick one
            res.evals += 1
            try:
                got = getattr(x, meth)()
                V(f'{meth}:auto-r>1', f'{meth}() in an algebra with {r} null generators returns a value instead of refusing to choose', 'an exception', show(mvdict(got)[0]))
            except Exception:
                pass
        b = elem(lambda: getattr(x, hod)(), hod, hod)
        a = elem(lambda: getattr(x, meth)(kind='hodge'), meth + ':hodge', f"{meth}(kind='hodge')")
        if a is not None and b is not None and eq_elem(a, b):
            V(f'{meth}:kind=hodge', f"{meth}(kind='hodge') differs from {hod}", show(b), show(a))
        if not degenerate_cfg:
            b = elem(lambda: getattr(x, pol)(), pol, pol)
            a = elem(lambda: getattr(x, meth)(kind='polarity'), meth + ':polarity', f"{meth}(kind='polarity')")
            if a is not None and b is not None and eq_elem(a, b):
                V(f'{meth}:kind=polarity', f"{meth}(kind='polarity') differs from {pol}", show(b), show(a))
    # J is the identity of the regressive product
    for nm, th in (('x&J', lambda: x & J), ('J&x', lambda: J & x)):
        rr = elem(th, nm, nm)
        if rr is not None and eq_elem(rr, xd):
            V('rp:identity', f'{nm} != x', show(xd), show(rr), f'print(x & alg.pss)')
    if len(res.samples) < 2 and len(keys) >= 2:
        res.sample({'config': name, 'keys': list(keys), 'clauses': 'hodge/unhodge/polarity/dual kind/rp identity'})


def check_rp(alg, ref, cfg, ka, kb, res, shard):
    name = cfg_name(cfg)
    a, b = gmv(alg, ka, 'a'), gmv(alg, kb, 'b')
    case = {'shard': {'stratum': shard['stratum'], 'cfgs': [cfg], 'rp': ['list', [list(ka)], [list(kb)]]}}
    repro = (f"from kingdon import Algebra\nalg = {cfg_repro(cfg)}\na = alg.multivector(keys={tuple(ka)}, name='a'); "
             f"b = alg.multivector(keys={tuple(kb)}, name='b')\nprint(a & b, (a.hodge() ^ b.hodge()).unhodge())")
    res.evals += 1
    try:
        got, dup = mvdict(a & b)
        lit, _ = mvdict((a.hodge() ^ b.hodge()).unhodge())
    except Exception as e:
        res.violate(violation('rp:raises', f'{name} rp keys {ka} & {kb}: {type(e).__name__}: {e}', case, '', repr(e), repro))
        return
    want = ref_to_keys(alg, ref, ref.rp(mv_to_ref(alg, ref, a), mv_to_ref(alg, ref, b)))
    if any(not iszero(v) for v in want.values()):
        res.nontrivial += 1
    if eq_elem(got, lit) or dup:
        res.violate(violation(f'rp:{len(ka)}x{len(kb)}', f'{name} a&b != unhodge(hodge a ^ hodge b), keys {ka} & {kb}', case, show(lit), show(got), repro))
    elif eq_elem(got, want):
        res.violate(violation(f'rp:ref:{len(ka)}x{len(kb)}', f'{name} a&b differs from the reference, keys {ka} & {kb}', case, show(want), show(got), repro))
    elif {k for k, v in want.items() if not iszero(v)} - set(got):
        res.violate(violation('rp:missing-key', f'{name} a&b lacks a blade with non-zero coefficient, keys {ka} & {kb}', case, show(want), show(got), repro))
    if len(res.samples) < 2 and len(ka) == 2 and len(kb) == 2 and any(not iszero(v) for v in want.values()):
        res.sample({'config': name, 'rp_keys': [list(ka), list(kb)], 'reference': show(want)})


def run_shard(shard):
    res = Result()
    for cfg in shard['cfgs']:
        alg = make_algebra(cfg)
        ref = ref_from_config(cfg)
        if shard.get('ops'):
            spec = shard['ops']
            spec = tuple(spec) if spec[0] != 'list' else ('list', spec[1])
            if spec[0] in ('T', 'S') and len(spec) == 1:
                spec = (spec[0], None)
            for keys in binprog.expand(spec, alg):
                if spec[0] == 'B' and not keys:
                    continue
                check_unary_clauses(alg, ref, cfg, keys, res, shard, unit=(spec[0] == 'B' or (spec[0] == 'list' and len(keys) == 1)))
        if shard.get('rpblades'):
            blades = [(k,) for k in alg.canon2bin.values()]
            for ka in blades:
                for kb in blades:
                    check_rp(alg, ref, cfg, ka, kb, res, shard)
        if shard.get('rp'):
            spec = shard['rp']
            if spec[0] == 'list':
                pairs = [(tuple(a), tuple(b)) for a in spec[1] for b in spec[2]]
            else:
                sp = tuple(spec) if len(spec) > 1 else (spec[0],)
                if sp[0] in ('T', 'S') and len(sp) == 1:
                    sp = (sp[0], None)
                L = binprog.expand(sp, alg)
                pairs = [(a, b) for a in L for b in L]
            for ka, kb in pairs:
                check_rp(alg, ref, cfg, ka, kb, res, shard)
    return res.asdict()
