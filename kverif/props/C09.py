"""C09  Results depend only on the operands, never on earlier operations (histories, schedules, faults).

Sequential part : explicit-state BFS over call histories of one live Algebra (kverif.explore), state = canonical
                  abstraction of its caches; every transition is replayed on the real object.
Concurrent part : stateless exploration of all thread interleavings up to a preemption bound under an own
                  deterministic scheduler (kverif.sched).
Fault part      : the k-th invocation of the user wrapper raises, at every point of every short history.
"""
import sys
from fractions import Fraction

from ..common import Result, cfg_repro
from ..explore import code_digest, expand as _expand, bfs
from ..harness import violation, merge

PID = 'C09'
LEVEL = 'model_checking'
RULE = ('state = abstraction of a live Algebra: {(operator, keys_in, keys_out, code digest)} + {(numspace name, code digest)} + '
        'cached callables of the operands; transition = one complete call (fixed operands whose cache keys collide); every '
        'transition is executed on the real object after replaying its history on a fresh Algebra and compared with the '
        'fresh-algebra outcome; operands and all previously returned multivectors are re-read after every call. '
        'Schedules: every interleaving of the listed thread harnesses up to the preemption bound, scheduling points = every '
        'line event in kingdon/*.py.')
ASSUMPTIONS = ['two algebras with equal abstraction hold identical code in identical slots with identical globals, hence equal futures',
               'sympy/numpy frames are atomic for the scheduler (line events are taken in kingdon/*.py only)',
               'CPython threads switch only between bytecodes; the line granularity is complemented by a free-running smoke pass']
BOUNDS = {
    'quick': 'BFS to fixpoint: 8-symbol alphabet x {Algebra(2), Algebra(2,0,1)} x {no wrapper, tagging wrapper}; all 6 key orders of one key set in d=5 '
             '(+ registered function) with and without wrapper; redefinition worlds; wrapper faults (call time and wrap time) k<=2 on histories <=2; '
             'threads: 2x1 calls, preemption bound 1 over all line events (4 harnesses)',
    'thorough': 'everything of quick with wrapper faults (call and wrap time) k<=4 on histories <=3; threads: 10 harnesses at bound 1 (2x1, 2x2, 3x1 calls), '
                'bound 2 over all points for w:gp1|gp2 and over the cache sites for two more; then BFS over the 13-symbol alphabet for the remaining time',
}

F = Fraction


class Tag:
    """Semantics preserving wrapper (JIT decorator stand-in) that keeps the wrapped function reachable."""
    fault_at = None      # (counter list, k): raise on the k-th invocation of any wrapped function

    wrap_fault_at = None  # (counter list, k): raise on the k-th *application* of the wrapper (decoration time)

    def __init__(self, f):
        wf = Tag.wrap_fault_at
        if wf is not None:
            wf[0][0] += 1
            if wf[0][0] == wf[1]:
                raise WrapperFault('injected fault while wrapping')
        self.f = f
        self.__wrapped_by_verif__ = f
        self.__name__ = f.__name__

    def __call__(self, *a):
        fa = Tag.fault_at
        if fa is not None:
            fa[0][0] += 1
            if fa[0][0] == fa[1]:
                raise WrapperFault('injected wrapper fault')
        return self.f(*a)


class WrapperFault(RuntimeError):
    pass


WORLDS = {
    'vga2': dict(cfg={'p': 2, 'q': 0, 'r': 0}, wrapper=False),
    'vga2+w': dict(cfg={'p': 2, 'q': 0, 'r': 0}, wrapper=True),
    'pga2': dict(cfg={'p': 2, 'q': 0, 'r': 1}, wrapper=False),
    'pga2+w': dict(cfg={'p': 2, 'q': 0, 'r': 1}, wrapper=True),
    # all 6 storage orders of one key set whose renderings (decimal 2,1,17 / hex 2,1,11) could collide in a name
    'perm5+w': dict(cfg={'p': 5, 'q': 0, 'r': 0}, wrapper=True, perm=True),
    'perm5': dict(cfg={'p': 5, 'q': 0, 'r': 0}, wrapper=False, perm=True),
    # a registered function is redefined and registered again under the same name while another registered function calls it
    'redef': dict(cfg={'p': 2, 'q': 0, 'r': 0}, wrapper=False, redef=True),
    'redef+w': dict(cfg={'p': 2, 'q': 0, 'r': 0}, wrapper=True, redef=True),
    # two different registered functions that share a __name__ (e.g. made by a factory)
    # symbolic results pass the algebra's symbolic filter; a division that fails during generation runs before
    'symfilter': dict(cfg={'p': 2, 'q': 0, 'r': 1}, wrapper=False, symf=True),
    # state cached on the multivector objects themselves
    'objstate': dict(cfg={'p': 2, 'q': 0, 'r': 0}, wrapper=False, obj=True),
    'samename': dict(cfg={'p': 2, 'q': 0, 'r': 0}, wrapper=False, samename=True),
    'samename+w': dict(cfg={'p': 2, 'q': 0, 'r': 0}, wrapper=True, samename=True),
    # d = 6: inverse and division share the iterative scheme
    'inv6': dict(cfg={'p': 6, 'q': 0, 'r': 0}, wrapper=False, inv6=True),
    # d = 3: coefficient access and blades through several spellings of one blade
    'spell3': dict(cfg={'p': 3, 'q': 0, 'r': 0}, wrapper=False, spell=True),
    # d = 7: the blade table is filled lazily, so it is part of the history dependent state
    'lazy7': dict(cfg={'p': 6, 'q': 0, 'r': 1}, wrapper=False, lazy=True),
}
PERMS = [(1, 2, 17), (1, 17, 2), (2, 1, 17), (2, 17, 1), (17, 1, 2), (17, 2, 1)]


def make_world(world_id):
    from kingdon import Algebra
    w = WORLDS[world_id]
    cfg = w['cfg']
    alg = Algebra(cfg['p'], cfg['q'], cfg['r'], wrapper=Tag if w['wrapper'] else None)
    other = Algebra(cfg['p'] + 1, cfg['q'], cfg['r'])
    mv = lambda keys, vals: alg.multivector(keys=tuple(keys), values=[F(v) for v in vals])
    if w.get('inv6'):
        ctx = dict(alg=alg, other=other, u=mv((1, 6), (2, 3)), v=mv((2, 24), (1, 2)), e=mv((3,), (1,)))
        ctx['_operands'] = ['u', 'v', 'e']
        return ctx
    if w.get('spell'):
        ctx = dict(alg=alg, other=other, x=mv((7, 1, 3), (5, 2, 3)), e=mv((3,), (1,)))

        def coeff231(a):
            return a.e231 * a
        ctx['r231'] = alg.register(coeff231)
        ctx['_operands'] = ['x', 'e']
        return ctx
    if w.get('lazy'):
        ctx = dict(alg=alg, other=other, a=mv((2, 4), (3, 5)), B=mv((6, 10, 3), (2, -1, 4)), e=mv((2,), (1,)), E=mv((6,), (1,)), T=mv((14, 7), (1, 2)))

        def f(a, b):
            return a * b + a
        ctx['f'] = alg.register(f)
        ctx['_operands'] = ['a', 'B', 'e', 'E', 'T']
        return ctx
    if w.get('perm'):
        val = {1: 3, 2: 5, 17: 7}
        ctx = dict(alg=alg, other=other, e=mv((3,), (1,)))
        for i, p in enumerate(PERMS):
            ctx[f'q{i}'] = mv(p, [val[k] for k in p])

        def f(a, b):
            return a * b + a
        ctx['f'] = alg.register(f)
        ctx['_operands'] = [f'q{i}' for i in range(6)] + ['e']
        return ctx
    if cfg['r'] == 0:
        # Algebra(2): keys 1=e1, 2=e2, 3=e12; canonical order (0,1,2,3)
        x1 = mv((1, 2), (3, 5))
        x2 = mv((2, 1), (5, 3))
        x3 = mv((0, 1, 2), (0, 3, 5))
        x4 = mv((0, 1, 2, 3), (0, 3, 5, 0))
        x5 = mv((3, 2, 1, 0), (0, 5, 3, 0))
        e = mv((3,), (1,))
        z = mv((3,), (0,))
        nullb = mv((3,), (0,))
        st1, st2 = mv((0, 3), (5, -4)), mv((3, 0), (-3, 6))       # Study numbers (scalar + pseudoscalar) in two storage orders
    else:
        # Algebra(2,0,1): e0=1 (null), e1=2, e2=4; canonical order (0,1,2,4,3,5,6,7), binary order differs
        x1 = mv((2, 4), (3, 5))
        x2 = mv((4, 2), (5, 3))
        x3 = mv((0, 2, 4), (0, 3, 5))
        x4 = mv((0, 1, 2, 4, 3, 5, 6, 7), (0, 0, 3, 5, 0, 0, 0, 0))
        x5 = mv((0, 1, 2, 3, 4, 5, 6, 7), (0, 0, 3, 0, 5, 0, 0, 0))
        e = mv((6,), (1,))
        z = mv((6,), (0,))
        nullb = mv((1,), (2,))          # the null generator e0: no inverse, the division fails during generation
        st1, st2 = mv((0, 7), (5, -4)), mv((7, 0), (-3, 6))
    import sympy
    s1 = alg.multivector(keys=x1.keys(), values=[sympy.Symbol('u1'), sympy.Symbol('u2')])
    s2 = alg.multivector(keys=x2.keys(), values=[sympy.Symbol('u2'), sympy.Symbol('u1')])
    t1 = alg.multivector(keys=x1.keys(), values=[sympy.Symbol('u1') + sympy.Symbol('u2'), sympy.Symbol('u1') - sympy.Symbol('u2')])
    ctx = dict(alg=alg, other=other, t1=t1, x1=x1, x2=x2, x3=x3, x4=x4, x5=x5, e=e, z=z, s1=s1, s2=s2, nullb=nullb, st1=st1, st2=st2,
               y=other.multivector(keys=(1,), values=[F(1)]))

    def f(a, b):
        return a * b + a

    def sq(a):
        return a ** 2

    def g(a, b):
        return ctx['f'](a, b) - b

    def h(a, b):
        return a * b - a

    ctx['f_py'] = f
    ctx['g_py'] = lambda a, b: ctx['f_py'](a, b) - b
    ctx['f'] = alg.register(f)
    ctx['sq'] = alg.register(sq)
    ctx['g'] = alg.register(g)
    ctx['hs'] = alg.register(symbolic=True)(h)
    if w.get('samename'):
        def factory(sign):
            def twin(a, b):
                return a * b + sign * a
            return twin
        ctx['tw_py'] = [factory(1), factory(-1)]
        ctx['tw'] = [alg.register(t) for t in ctx['tw_py']]
        ctx['stw_py'] = [factory(2), factory(-2)]
        ctx['stw'] = [alg.register(symbolic=True)(t) for t in ctx['stw_py']]

        def outer(a, b):
            return ctx['tw'][0](a, b) + b
        ctx['outer'] = alg.register(outer)
    ctx['_operands'] = ['x1', 'x2', 'x3', 'x4', 'x5', 'e', 'z', 's1', 's2', 'y', 't1', 'st1', 'st2']
    ctx['_redef_world'] = bool(w.get('redef')) or bool(w.get('samename'))
    ctx['_objworld'] = bool(w.get('obj'))
    return ctx


SYMBOLS = {
    # products on layouts of one element: sparse, reversed, zero padded, dense canonical, dense other order
    'gp1': lambda c: c['x1'] * c['e'],
    'gp2': lambda c: c['x2'] * c['e'],
    'gp5': lambda c: c['x5'] * c['e'],
    'sw2': lambda c: c['x2'] >> c['e'],
    'inv5': lambda c: c['x5'].inv(),
    'f2': lambda c: c['f'](c['x2'], c['e']),
    'sq5': lambda c: c['sq'](c['x5']),
    'div0': lambda c: c['x1'] / c['z'],
    # thorough extras
    'gp4': lambda c: c['x4'] * c['e'],
    'add2': lambda c: c['x2'] + c['e'],
    'sw1': lambda c: c['x1'] >> c['e'],
    'f1': lambda c: c['f'](c['x1'], c['e']),
    'g2': lambda c: c['g'](c['x2'], c['e']),
    'inv4': lambda c: c['x4'].inv(),
    'hs2': lambda c: c['hs'](c['x2'], c['e']),
    'call2': lambda c: (c['s2'] * c['e'])(u1=F(3), u2=F(5)),
    'call1': lambda c: (c['s1'] * c['e'])(u1=F(3), u2=F(5)),
    'mix': lambda c: c['x1'] * c['y'],
    'neg2': lambda c: -c['x2'],
}
def _redef(c):
    """The user redefines f (same name, other body) and registers it again."""
    def f(a, b):
        return a * b - a - a
    c['f_py'] = f
    c['f'] = c['alg'].register(f)

    def g(a, b):                      # dependents are registered again as well (a compiled function keeps its callees)
        return c['f'](a, b) - b
    c['g'] = c['alg'].register(g)
    return None


SYMBOLS.update({
    # division by a structurally singular operand: raises while the function is being generated
    'divnull': lambda c: c['x1'] / c['nullb'],
    # symbolic operands: the result goes through the symbolic filter (simp_func) of the algebra
    'sym2': lambda c: c['s2'] * c['e'] - c['e'] * c['s2'],
    'symsq': lambda c: (c['s1'] + c['s2']) * (c['s1'] + c['s2']),
    'symt': lambda c: c['t1'] * c['t1'],            # coefficients that only the symbolic simplification brings into normal form
    # state cached on multivector objects (issymbolic, free_symbols, the compiled callable) and map()
    'calls2': lambda c: c['s2'](u1=F(3), u2=F(5)),
    'mapsym': lambda c: c['s2'].map(lambda v: 2 * v)(u1=F(3), u2=F(5)),
    'mapnum': lambda c: c['x2'].map(lambda v: v * __import__('sympy').Symbol('t')) * c['x2'],
    'mapnum2': lambda c: c['x2'].map(lambda v: 2 * v) * c['e'],
})
OBJ_ALPHA = ['calls2', 'mapsym', 'mapnum', 'mapnum2', 'gp2', 'sym2']
SYMBOLS['redef'] = _redef
SYMBOLS['twinA'] = lambda c: c['tw'][0](c['x2'], c['e'])
SYMBOLS['twinB'] = lambda c: c['tw'][1](c['x2'], c['e'])
SYMBOLS['twinOuter'] = lambda c: c['outer'](c['x2'], c['e'])
SYMBOLS['stwinA'] = lambda c: c['stw'][0](c['x2'], c['e'])
SYMBOLS['stwinB'] = lambda c: c['stw'][1](c['x2'], c['e'])
SAMENAME_ALPHA = ['twinA', 'twinB', 'twinOuter', 'stwinA', 'stwinB']
REDEF_ALPHA = ['f2', 'g2', 'redef', 'gp2', 'f1']
# symbols whose expected outcome is the direct evaluation of the plain python function in the *current* world
DIRECT = {'stwinA': lambda c: c['stw_py'][0](c['x2'], c['e']), 'stwinB': lambda c: c['stw_py'][1](c['x2'], c['e']),
          'twinA': lambda c: c['tw_py'][0](c['x2'], c['e']), 'twinB': lambda c: c['tw_py'][1](c['x2'], c['e']),
          'twinOuter': lambda c: c['tw_py'][0](c['x2'], c['e']) + c['e'],
          'f2': lambda c: c['f_py'](c['x2'], c['e']), 'f1': lambda c: c['f_py'](c['x1'], c['e']), 'g2': lambda c: c['g_py'](c['x2'], c['e'])}


def expected(name, ctx, fresh):
    if ctx.get('_redef_world') and name in DIRECT:
        from ..explore import outcome
        return outcome(DIRECT[name], ctx, normalise)
    return fresh[name]


for _i in range(6):
    SYMBOLS[f'pg{_i}'] = (lambda i: lambda c: c[f'q{i}'] * c['e'])(_i)
    SYMBOLS[f'pf{_i}'] = (lambda i: lambda c: c['f'](c[f'q{i}'], c['e']))(_i)
SYMBOLS.update({
    'l_aB': lambda c: c['a'] * c['B'], 'l_Ba': lambda c: c['B'] * c['a'], 'l_eE': lambda c: c['e'] * c['E'], 'l_Ee': lambda c: c['E'] * c['e'],
    'l_ipaT': lambda c: c['a'] | c['T'], 'l_ipTa': lambda c: c['T'] | c['a'], 'l_swB': lambda c: c['B'] >> c['a'], 'l_f': lambda c: c['f'](c['T'], c['a']),
})
SYMBOLS.update({
    'i6_inv': lambda c: c['v'].inv(), 'i6_div': lambda c: c['u'] / c['v'], 'i6_gp': lambda c: c['u'] * c['v'], 'i6_invu': lambda c: c['u'].inv(),
    's3_132': lambda c: c['x'].e132, 's3_231': lambda c: c['x'].e231, 's3_312b': lambda c: c['alg'].blades.e312 * c['x'], 's3_reg': lambda c: c['r231'](c['x']),
    's3_kw': lambda c: c['alg'].multivector(e321=4, e1=1),
})
INV6_ALPHA = ['i6_inv', 'i6_div', 'i6_gp', 'i6_invu']
SPELL_ALPHA = ['s3_132', 's3_231', 's3_312b', 's3_reg', 's3_kw']
LAZY_ALPHA = ['l_aB', 'l_Ba', 'l_eE', 'l_Ee', 'l_ipaT', 'l_ipTa', 'l_swB', 'l_f']
PERM_ALPHA = [f'pg{i}' for i in range(6)] + ['pf2', 'pf3']
QUICK = ['gp1', 'gp2', 'gp5', 'sw2', 'inv5', 'f2', 'sq5', 'div0']
SYMF_ALPHA = ['divnull', 'sym2', 'symt', 'gp2', 'div0']
THOROUGH = QUICK + ['g2', 'hs2', 'call2', 'add2', 'mix']
_ALPHA = {'quick': QUICK, 'thorough': THOROUGH}
_tier = ['quick']


def alphabet(world_id):
    tier = world_id.split('|')[1] if '|' in world_id else _tier[0]
    if WORLDS[_wid(world_id)].get('perm'):
        return {n: SYMBOLS[n] for n in PERM_ALPHA}
    if WORLDS[_wid(world_id)].get('redef'):
        return {n: SYMBOLS[n] for n in REDEF_ALPHA}
    if WORLDS[_wid(world_id)].get('lazy'):
        return {n: SYMBOLS[n] for n in LAZY_ALPHA}
    if WORLDS[_wid(world_id)].get('samename'):
        return {n: SYMBOLS[n] for n in SAMENAME_ALPHA}
    if WORLDS[_wid(world_id)].get('inv6'):
        return {n: SYMBOLS[n] for n in INV6_ALPHA}
    if WORLDS[_wid(world_id)].get('spell'):
        return {n: SYMBOLS[n] for n in SPELL_ALPHA}
    if WORLDS[_wid(world_id)].get('obj'):
        return {n: SYMBOLS[n] for n in OBJ_ALPHA}
    if WORLDS[_wid(world_id)].get('symf'):
        return {n: SYMBOLS[n] for n in SYMF_ALPHA}
    return {n: SYMBOLS[n] for n in _ALPHA[tier]}


def _wid(world_id):
    return world_id.split('|')[0]


_make = make_world


def make_world(world_id):  # noqa: F811  (accepts 'world|tier')
    return _make(_wid(world_id))


def normalise(v):
    from kingdon import MultiVector
    if isinstance(v, MultiVector):
        items = {}
        for k, x in v.items():
            items[k] = items.get(k, 0) + x
        return tuple(sorted((k, repr(x)) for k, x in items.items() if x != 0))
    if isinstance(v, (list, tuple)):
        return tuple(normalise(x) for x in v)
    return repr(v)


def freeze(v):
    from kingdon import MultiVector
    if isinstance(v, MultiVector):
        return (tuple(v.keys()), tuple(repr(x) for x in v.values()))
    if isinstance(v, (list, tuple)):
        return tuple(freeze(x) for x in v)
    return repr(v)


def snapshot(ctx):
    return tuple((n, freeze(ctx[n])) for n in ctx['_operands'])


def abstraction(ctx):
    alg = ctx['alg']
    ents = []
    for name, od in alg.registry.items():
        nm = name if isinstance(name, str) else 'reg:' + getattr(name, '__name__', '?')
        for kin, (kout, fn) in od.operator_dict.items():
            ents.append((nm, kin, tuple(kout), code_digest(fn)))
    ns = [(k, code_digest(v)) for k, v in alg.numspace.items() if k != '__builtins__']
    cached = [(n, code_digest(ctx[n].__dict__['_callable'][1])) for n in ctx['_operands'] if '_callable' in ctx[n].__dict__]
    if ctx.get('_objworld'):
        cached += [(n, 'props', tuple(sorted(k for k in ctx[n].__dict__ if k in ('issymbolic', 'free_symbols')))) for n in ctx['_operands']]
    cached.append(('options', code_digest(alg.simp_func) if alg.simp_func else 'None', alg.cse, alg.graded, repr(alg.codegen_symbolcls)))
    lazy = tuple(sorted(alg.signs.items())) if alg.d > 6 else ()
    return (tuple(sorted(ents)), tuple(sorted(ns)), tuple(sorted(cached, key=repr)), code_digest(ctx['f_py']) if 'f_py' in ctx else '', lazy)


def explore_expand(task):
    return _expand(task)


def thread_task(task):
    from . import C09_threads
    return C09_threads.thread_task(task)


# ---------------------------------------------------------------------------------------------- reference
def reference_check(world_id):
    """The fresh-algebra outcome of every symbol is itself tied to the reference model."""
    from ..oracle import ref_from_config, mv_to_ref, Ref
    probs = []
    ctx = make_world(world_id)
    alg = ctx['alg']
    ref = ref_from_config(WORLDS[_wid(world_id)]['cfg'])
    R = lambda n: mv_to_ref(alg, ref, ctx[n])
    want = {
        'gp1': lambda: ref.gp(R('x1'), R('e')), 'gp2': lambda: ref.gp(R('x2'), R('e')), 'gp5': lambda: ref.gp(R('x5'), R('e')),
        'gp4': lambda: ref.gp(R('x4'), R('e')), 'sw2': lambda: ref.sw(R('x2'), R('e')), 'sw1': lambda: ref.sw(R('x1'), R('e')),
        'inv5': lambda: ref.inverse(R('x5')), 'inv4': lambda: ref.inverse(R('x4')),
        'f2': lambda: Ref.add(ref.gp(R('x2'), R('e')), R('x2')), 'f1': lambda: Ref.add(ref.gp(R('x1'), R('e')), R('x1')),
        'g2': lambda: Ref.sub(Ref.add(ref.gp(R('x2'), R('e')), R('x2')), R('e')),
        'hs2': lambda: Ref.sub(ref.gp(R('x2'), R('e')), R('x2')),
        'sq5': lambda: ref.gp(R('x5'), R('x5')), 'add2': lambda: Ref.add(R('x2'), R('e')), 'neg2': lambda: Ref.neg(R('x2')),
        'call2': lambda: ref.gp(R('x2'), R('e')), 'call1': lambda: ref.gp(R('x1'), R('e')),
    }
    want.update({'i6_inv': lambda: ref.inverse(R('v')), 'i6_invu': lambda: ref.inverse(R('u')), 'i6_gp': lambda: ref.gp(R('u'), R('v')),
                 'i6_div': lambda: ref.gp(R('u'), ref.inverse(R('v')))})
    want.update({'calls2': lambda: R('x2'), 'mapnum2': lambda: ref.gp(Ref.scale(R('x2'), 2), R('e')), 'mapsym': lambda: Ref.scale(R('x2'), 2)})
    want.update({'l_aB': lambda: ref.gp(R('a'), R('B')), 'l_Ba': lambda: ref.gp(R('B'), R('a')), 'l_eE': lambda: ref.gp(R('e'), R('E')), 'l_Ee': lambda: ref.gp(R('E'), R('e')),
                 'l_ipaT': lambda: ref.ip(R('a'), R('T')), 'l_ipTa': lambda: ref.ip(R('T'), R('a')), 'l_swB': lambda: ref.sw(R('B'), R('a')),
                 'l_f': lambda: Ref.add(ref.gp(R('T'), R('a')), R('T'))})
    for i in range(6):
        want[f'pg{i}'] = (lambda i: lambda: ref.gp(R(f'q{i}'), R('e')))(i)
        want[f'pf{i}'] = (lambda i: lambda: Ref.add(ref.gp(R(f'q{i}'), R('e')), R(f'q{i}')))(i)
    for name, fn in alphabet(world_id).items():
        if name not in want:
            continue
        c = make_world(world_id)
        try:
            got = mv_to_ref(c['alg'], ref, fn(c))
        except Exception as e:
            probs.append((name, 'raises ' + type(e).__name__))
            continue
        w = want[name]()
        from ..common import close as _close
        eq = (lambda a, b: _close(a, b, 1e-9)) if WORLDS[_wid(world_id)].get('inv6') else None   # the d>=6 inverse computes in floats
        if w is None or not (Ref.equal(got, w, eq) if eq else Ref.equal(got, w)):
            probs.append((name, f'fresh result {got} differs from reference {w}'))
    return probs


# ---------------------------------------------------------------------------------------------- faults
def fault_task(task):
    """Wrapper fault injection: on a wrapper world, run history h with the k-th wrapped-function call raising,
    then (faults off) every symbol must still give its fresh outcome."""
    world_id, hist, k, fresh = task
    from ..explore import outcome
    alpha = alphabet(world_id)
    recs = []
    for name, fn in alpha.items():
        ctx = make_world(world_id)
        counter = [0]
        if k > 0:
            Tag.fault_at = (counter, k)
        else:
            Tag.wrap_fault_at = (counter, -k)
        faulted = False
        try:
            for sym in hist:
                try:
                    alpha[sym](ctx)
                except WrapperFault:
                    faulted = True
                except Exception:
                    pass
        finally:
            Tag.fault_at = None
            Tag.wrap_fault_at = None
        if not faulted:
            recs.append((name, None, False))
            continue
        before = snapshot(ctx)
        out = outcome(fn, ctx, normalise)
        prob = None
        if out != fresh[name]:
            prob = ('result-after-fault', fresh[name], out)
        elif snapshot(ctx) != before:
            prob = ('operand-mutated-after-fault', before, snapshot(ctx))
        recs.append((name, prob, True))
    return recs


# ---------------------------------------------------------------------------------------------- pairwise interference
P_BINARY = ['gp', 'sw', 'cp', 'acp', 'ip', 'sp', 'lc', 'rc', 'op', 'rp', 'proj', 'add', 'sub', 'div']
P_UNARY = ['inv', 'neg', 'reverse', 'involute', 'conjugate', 'polarity', 'unpolarity', 'hodge', 'unhodge', 'normsq', 'outerexp', 'outersin', 'outercos', 'outertan']
P_LAYOUTS = ['x2', 'x5', 'x1', 'x4']
P_STUDY = ['sqrt', 'norm', 'normalized']          # on Study numbers st1 / st2 (the same blades in two storage orders)


def _pcall(ctx, sym):
    """sym = (operator, layout, mode); mode 'direct' calls the operator, 'reg' a registered python function that uses it."""
    op, lay, mode = sym
    x = ctx[lay]
    if mode == 'direct':
        return getattr(x, op)(ctx['e']) if op in P_BINARY else getattr(x, op)()
    if mode == 'symself':
        # two *different* symbolic operands that store the same blades as x: the key pattern (keys, keys) is the one that
        # norms, inverses and sandwiches generate internally with one operand on both sides (x*~x)
        alg = ctx['alg']
        xs, ys = alg.multivector(keys=tuple(x.keys()), name='p'), alg.multivector(keys=tuple(x.keys()), name='q')
        return getattr(xs, op)(ys)
    regs = ctx.setdefault('_pregs', {})
    if op not in regs:
        ns = {}
        if op in P_BINARY:
            exec(f'def r_{op}(a, b):\n    return a.{op}(b)\n', ns)
        else:
            exec(f'def r_{op}(a):\n    return a.{op}()\n', ns)
        regs[op] = ctx['alg'].register(ns[f'r_{op}'])
    return regs[op](x, ctx['e']) if op in P_BINARY else regs[op](x)


def pair_task(task):
    """All histories [A, B, A] for the given list of (A, B): the second A must equal the first call of A on a fresh world,
    and B after A must equal B on a fresh world."""
    world_id, pairs = task
    from ..explore import outcome
    res = Result()
    fresh = {}

    def fresh_of(sym):
        if sym not in fresh:
            fresh[sym] = outcome(lambda c: _pcall(c, sym), make_world(world_id), normalise)
        return fresh[sym]
    for A, B in pairs:
        A, B = tuple(A), tuple(B)
        ctx = make_world(world_id)
        before = snapshot(ctx)
        seq = [A, B, A]
        for i, sym in enumerate(seq):
            out = outcome(lambda c: _pcall(c, sym), ctx, normalise)
            res.transitions += 1
            if out != fresh_of(sym):
                w = 'wrapper' if WORLDS[_wid(world_id)]['wrapper'] else 'nowrapper'
                same_op = A[0] == B[0]
                res.violate(violation(f"pair:{w}:{A[2]}:{'same-operator-other-layout' if same_op else A[0] + '-after-' + B[0]}",
                                      f'world {world_id}: in the history {seq[:i + 1]} the last call differs from the same call on a fresh algebra',
                                      {'world': world_id, 'history': [], 'pair': [list(A), list(B)]}, fresh_of(sym), out))
                break
        if snapshot(ctx) != before:
            res.violate(violation('pair:operand-mutated', f'world {world_id}: operands changed during {seq}', {'world': world_id, 'history': [], 'pair': [list(A), list(B)]}, before, snapshot(ctx)))
        res.evals += 1
    return res.asdict()


def pair_histories(tier):
    ops = P_BINARY + P_UNARY
    out = []
    for mode in ('direct', 'reg'):
        # the same operator on two storage orders of one key set
        for op in ops:
            for l1, l2 in (('x1', 'x2'), ('x2', 'x1'), ('x4', 'x5'), ('x5', 'x4')):
                out.append(((op, l1, mode), (op, l2, mode)))
        for op in P_STUDY:
            for l1, l2 in (('st1', 'st2'), ('st2', 'st1')):
                out.append(((op, l1, mode), (op, l2, mode)))
        for a in P_STUDY:
            for b in P_STUDY + ['normsq', 'inv']:
                if a != b:
                    out.append(((a, 'st2', mode), (b, 'st2', mode)))
                    out.append(((b, 'st1', mode), (a, 'st1', mode)))
        if mode == 'direct':
            for lay in ('x1', 'x2', 'x4'):
                for a in ('gp', 'op', 'ip', 'cp', 'sw'):
                    for b, bm in (('normsq', 'direct'), ('inv', 'direct'), ('sw', 'direct'), ('proj', 'direct'), ('normsq', 'reg')):
                        out.append(((a, lay, 'symself'), (b, lay, bm)))
        # two different operators on the same operands
        for lay in (('x2', 'x5') if tier == 'thorough' else ('x2',)):
            for a in ops:
                for b in ops:
                    if a != b and ((a in P_BINARY) == (b in P_BINARY)):
                        out.append(((a, lay, mode), (b, lay, mode)))
    return out


# ---------------------------------------------------------------------------------------------- long histories
def long_task(task):
    """One long history: registered functions (and direct calls) are used once, then N *other* key patterns of the operators
    they use are generated, then the first calls are repeated: results must not depend on how much was generated in between
    (bounded caches, eviction, anything that invalidates what compiled functions look up late)."""
    wrapper, n = task
    from itertools import combinations, permutations
    from ..explore import outcome
    from kingdon import Algebra, MultiVector
    res = Result()
    alg = Algebra(4, wrapper=(lambda f: f)) if wrapper else Algebra(4)
    keys = list(alg.canon2bin.values())

    def f(a, b):
        return a * b + (a | b)

    def g(a):
        return (a * a).inv() + ~a
    rf, rg = alg.register(f), alg.register(g)
    x = MultiVector.fromkeysvalues(alg, (keys[1], keys[6]), [F(2), F(3)])
    e = MultiVector.fromkeysvalues(alg, (keys[2],), [F(5)])
    calls = {'registered f(x, e)': lambda: rf(x, e), 'registered g(x)': lambda: rg(x), 'x*e': lambda: x * e, 'x.inv()': lambda: x.inv(), 'x >> e': lambda: x >> e}
    first = {k: outcome(lambda c, th=th: th(), None, normalise) for k, th in calls.items()}
    pats = []
    for k in (1, 2, 3):
        for c in combinations(keys, k):
            for p in permutations(c):
                pats.append(p)
    pats = pats[:n]
    b = MultiVector.fromkeysvalues(alg, (keys[3],), [2])
    for p in pats:
        y = MultiVector.fromkeysvalues(alg, p, [1 + i for i in range(len(p))])
        y * b
        y | b
        ~y
        res.transitions += 3
    w = 'wrapper' if wrapper else 'nowrapper'
    for k, th in calls.items():
        res.evals += 1
        res.transitions += 1
        again = outcome(lambda c, th=th: th(), None, normalise)
        if again != first[k]:
            res.violate(violation(f'long-history:{w}:{k.split("(")[0].split()[0]}', f'Algebra(4) ({w}): {k} gives a different result after {len(pats)} other key patterns of gp / ip / reverse were used',
                                  {'world': 'long', 'history': [], 'long': [wrapper, n]}, first[k], again))
    return res.asdict()


# ---------------------------------------------------------------------------------------------- cause signatures
def cause(world_id, hist, kind):
    """Structural cause signature of a history violation: which kind, with/without wrapper, and the multiset of
    operator families on the (shortest) path."""
    if WORLDS[_wid(world_id)].get('samename'):
        w = 'wrapper' if WORLDS[_wid(world_id)]['wrapper'] else 'nowrapper'
        return f'history:{kind}:{w}:same-named-registered-functions:{hist[-1]}'
    fam = lambda s: ''.join(ch for ch in s if not ch.isdigit())
    w = 'wrapper' if WORLDS[_wid(world_id)]['wrapper'] else 'nowrapper'
    return f"history:{kind}:{w}:{fam(hist[-1])}-after-{'+'.join(sorted({fam(s) for s in hist[:-1]}))}"


def repro_for(world_id, hist):
    w = WORLDS[_wid(world_id)]
    return (f"# world {world_id}: see kverif/props/C09.py make_world; history = {list(hist)}\n"
            f"from kverif.props import C09\nc = C09.make_world({world_id!r})\n"
            + ''.join(f"r = C09.SYMBOLS[{s!r}](c)\n" if i == len(hist) - 1 else
                      f"try: C09.SYMBOLS[{s!r}](c)\nexcept Exception: pass\n" for i, s in enumerate(hist))
            + "print(r)  # compare with C09.SYMBOLS[...](C09.make_world(...)) on a fresh world\n")


# ---------------------------------------------------------------------------------------------- driver
def drive(ctx):
    tier = ctx.tier
    _tier[0] = tier
    res = Result()
    # thorough: first everything the quick tier does (small alphabet to fixpoint), then the thread exploration, and only then the
    # BFS over the large alphabet with whatever time is left (it stops at a level boundary and reports the cap)
    worlds = [f'{w}|quick' for w in WORLDS]
    if tier == 'thorough':
        worlds += ['THREADS'] + [f'{w}|thorough' for w in WORLDS if not WORLDS[w].get('perm') and not WORLDS[w].get('redef') and not WORLDS[w].get('lazy') and not WORLDS[w].get('samename') and not WORLDS[w].get('obj') and not WORLDS[w].get('symf') and not WORLDS[w].get('inv6') and not WORLDS[w].get('spell')]
    samples = []
    threads_done = False
    for world_id in worlds:
        if world_id == 'THREADS':
            from . import C09_threads
            C09_threads.drive(ctx, res, tier)
            threads_done = True
            continue
        for name, msg in reference_check(world_id):
            res.violate(violation(f'fresh-vs-reference:{name}', f'{world_id} {name}: {msg}', {'world': world_id, 'history': [name]}, 'reference', msg))

        def on_violation(wid, hist, prob, fresh, out, res=res):
            kind, exp, got = prob
            res.violate(violation(cause(wid, hist, kind), f'world {wid}: after history {list(hist[:-1])} the call {hist[-1]} gives a different '
                                  f'{"result" if kind == "result" else kind}', {'world': wid, 'history': list(hist)}, exp, got, repro_for(wid, hist)))
        r = bfs(ctx, __name__, world_id, max_depth=len(alphabet(world_id)) + 2, on_violation=on_violation)
        res.states += r['states']
        res.transitions += r['transitions']
        res.traces += r['transitions']
        res.evals += r['transitions']
        res.outcomes |= {f'{world_id}:{o}' for o in r['outcomes']}
        res.count('bfs_depth_max', 0)
        res.extra[f'bfs[{world_id}]'] = {'states': r['states'], 'transitions': r['transitions'], 'depth': r['depth'], 'capped': r['capped'],
                                         'alphabet': list(alphabet(world_id))}
        if r['capped']:
            ctx.capped.append(f'bfs[{world_id}]: {r["capped"]}')
        samples.append({'world': world_id, 'longest_shortest_history': list(r['sample_path'])})
        # wrapper fault menu
        if WORLDS[_wid(world_id)]['wrapper'] and not WORLDS[_wid(world_id)].get('perm') and not WORLDS[_wid(world_id)].get('redef') and not WORLDS[_wid(world_id)].get('samename'):
            from itertools import product
            if tier == 'quick' or not world_id.endswith('|quick'):
                maxk, maxlen = 2, 2
            else:
                maxk, maxlen = 4, 3      # thorough tier, small alphabet: deeper fault menu
            names = list(alphabet(world_id))
            hists = [h for n in range(1, maxlen + 1) for h in product(names, repeat=n)]
            tasks = [(world_id, h, k, r['fresh']) for h in hists for k in list(range(1, maxk + 1)) + list(range(-1, -maxk - 1, -1))]
            tasks = [t for t in tasks if len(t[1]) < 3 or abs(t[2]) <= 2]
            nf = 0
            for (wid, h, k, _), recs in zip(tasks, ctx.map('fault_task', tasks)):
                for name, prob, faulted in recs:
                    if faulted:
                        nf += 1
                        res.evals += 1
                    if prob:
                        res.violate(violation(cause(wid, h + (name,), f'fault{k}:' + prob[0]), f'world {wid}: wrapper call #{k} raised during {list(h)}; '
                                              f'afterwards {name} differs from fresh', {'world': wid, 'history': list(h), 'fault_k': k, 'then': name}, prob[1], prob[2]))
            res.extra[f'faults[{world_id}]'] = {'histories': len(hists), 'fault_points_k': maxk, 'kinds': 'k-th call of a wrapped function raises; k-th application of the wrapper raises', 'faulted_executions_checked': nf}
    # pairwise interference: histories [A, B, A] over (operator x layout x {direct, registered}), wrapper and no wrapper
    from ..spaces import chunks as _chunks
    ph = pair_histories(tier)
    pworlds = ['vga2+w|quick', 'pga2|quick'] if tier == 'quick' else ['vga2+w|quick', 'vga2|quick', 'pga2+w|quick', 'pga2|quick']
    ptasks = [(wid, ch) for wid in pworlds for ch in _chunks(ph, 24) if ch]
    npairs = 0
    for out in ctx.map('pair_task', ptasks):
        npairs += out['evals']
        res.evals += out['evals']
        res.transitions += out['transitions']
        res.traces += out['transitions']
        for v in out['violations']:
            res.violate(v)
    res.extra['pairwise_interference'] = {'worlds': pworlds, 'histories_ABA': npairs, 'operators': len(P_BINARY) + len(P_UNARY), 'modes': ['direct', 'registered function']}
    # long histories: many other key patterns between two uses of a registered function
    nlong = 300 if tier == 'quick' else 1500
    for out in ctx.map('long_task', [(False, nlong), (True, nlong)]):
        res.evals += out['evals']
        res.transitions += out['transitions']
        res.traces += out['transitions']
        for v in out['violations']:
            res.violate(v)
    res.extra['long_histories'] = {'patterns_between_repeated_calls': nlong, 'worlds': ['Algebra(4)', 'Algebra(4)+wrapper']}
    res.nontrivial = res.states
    res.samples = samples[:3]
    # concurrent part
    if not threads_done:
        from . import C09_threads
        C09_threads.drive(ctx, res, tier)
    merge(ctx.agg, res.asdict())
    ctx.agg['samples'] = res.samples


def replay(case):
    """Re-run one history (or faulted history) without the explorer."""
    from ..explore import outcome
    res = Result()
    wid = case['world']
    hist = tuple(case['history'])
    if 'schedule' in case:
        from . import C09_threads
        return C09_threads.replay(case)
    alpha = alphabet(wid)
    if 'long' in case:
        return long_task(tuple(case['long']))
    if 'pair' in case:
        return pair_task((wid, [case['pair']]))
    if 'fault_k' in case:
        fresh = {case['then']: outcome(alpha[case['then']], make_world(wid), normalise)}
        for name, prob, faulted in fault_task((wid, hist, case['fault_k'], fresh | {n: None for n in alpha if n != case['then']})):
            if name == case['then'] and prob:
                res.violate(violation(cause(wid, hist + (name,), f"fault{case['fault_k']}:" + prob[0]), 'replayed', case, prob[1], prob[2]))
        return res.asdict()
    if len(hist) == 1 and hist[0] in alpha:
        for name, msg in reference_check(wid):
            res.violate(violation(f'fresh-vs-reference:{name}', msg, case, 'reference', msg))
        return res.asdict()
    fresh = {n: outcome(fn, make_world(wid), normalise) for n, fn in alpha.items()}
    recs = _expand((__name__, wid, hist[:-1], fresh))
    for name, key, out, problems in recs:
        if name == hist[-1]:
            for kind, exp, got in problems:
                res.violate(violation(cause(wid, hist, kind), 'replayed', case, exp, got))
    return res.asdict()
