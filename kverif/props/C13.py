"""C13  Algebra options change speed, never results."""
from fractions import Fraction
from itertools import product

from .. import spaces, binprog
from ..common import Result, nmv, mvdict, show, cfg_name, close
from ..harness import violation
from ..oracle import make_algebra

PID = 'C13'
LEVEL = 'exploration'
BINARY = ['gp', 'sw', 'cp', 'acp', 'ip', 'sp', 'lc', 'rc', 'op', 'rp', 'proj', 'add', 'sub', 'div']
UNARY = ['inv', 'neg', 'reverse', 'involute', 'conjugate', 'sqrt', 'polarity', 'unpolarity', 'hodge', 'unhodge', 'normsq',
         'outerexp', 'outersin', 'outercos', 'outertan']
RULE = ('cases = (signature, option setting from {cse} x {graded} x {codegen_symbolcls} x {wrapper} x {pretty_blade}, operator, grade-block key '
        'pattern(s)) with Fraction values (floats for sqrt on Study numbers); oracle = the element returned by the default-options algebra for the same '
        'operands; in graded mode additionally: an operation that succeeds by default must not raise, results store complete grades, and the result '
        'can be fed into a further operation. distinct = distinct (signature, options, operator, patterns); non-trivial = non-default options and a '
        'non-zero default result.')
ASSUMPTIONS = ['the default-options algebra is the reference (its operators are decided by C02-C08)', 'relative tolerance 1e-9']
BOUNDS = {
    'quick': 'Algebra(2), Algebra(1,0,1): all 23 non-default option settings (all grade blocks for <=2 deviations without the sympy symbol class, 4 blocks otherwise); Algebra(2,0,1), Algebra(3): single-deviation settings x 4 blocks',
    'thorough': 'all 23 non-default settings x pqr(d) d<=2 + mixed orderings; pqr(3) x 11 non-sympy settings x 6 blocks; 3 signatures of d=3 x sympy-symbol-class settings (<=2 deviations); 4 signatures of d=4 x single-deviation settings x 3 blocks',
}


def ident(f):
    return f


def rewrap(f):
    def inner(*a):
        return f(*a)
    return inner


def numeric_only(f):
    """Stand-in for a JIT decorator such as numba.njit: semantics preserving, but it only accepts numbers."""
    import numbers

    def inner(*args):
        for a in args:
            for v in a:
                if not isinstance(v, numbers.Number) and not hasattr(v, 'dtype'):
                    raise TypeError(f'numeric-only wrapper called with a {type(v).__name__}')
        return f(*args)
    return inner


WRAPPERS = {'none': None, 'identity': ident, 'closure': rewrap, 'numeric': numeric_only}


def option_settings():
    out = []
    for cse, graded, symcls, wr in product((True, False), (False, True), ('default', 'sympy'), ('none', 'identity', 'closure')):
        out.append(dict(cse=cse, graded=graded, symcls=symcls, wrapper=wr, pretty='𝐞' if wr != 'closure' else 'E'))
    # a wrapper that only accepts numbers (like a JIT compiler), with both symbol classes
    for symcls in ('default', 'sympy'):
        out.append(dict(cse=True, graded=False, symcls=symcls, wrapper='numeric', pretty='𝐞'))
    return out


def build(cfg, opt):
    import sympy
    kw = dict(cse=opt['cse'], graded=opt['graded'], pretty_blade=opt['pretty'])
    if opt['symcls'] == 'sympy':
        kw['codegen_symbolcls'] = sympy.Symbol
    if WRAPPERS[opt['wrapper']] is not None:
        kw['wrapper'] = WRAPPERS[opt['wrapper']]
    return make_algebra(cfg, **kw)


def optname(o):
    return f"cse={o['cse']},graded={o['graded']},symbolcls={o['symcls']},wrapper={o['wrapper']}"


def deviations(o):
    return (not o['cse']) + o['graded'] + (o['symcls'] == 'sympy') + (o['wrapper'] != 'none')


def optset(o):
    s = set()
    if not o['cse']:
        s.add('nocse')
    if o['graded']:
        s.add('graded')
    if o['symcls'] == 'sympy':
        s.add('sympycls')
    if o['wrapper'] != 'none':
        s.add('wrapper')
    return frozenset(s)


def drive(ctx):
    """Runs the shards, then keeps for every (operator, kind) only the violations whose option set is minimal:
    a failure under {graded, nocse} is subsumed by the same failure under {graded}."""
    ctx.run_shards(shards(ctx.tier, ctx.seed))
    vs = ctx.agg['violations']
    fails = {}
    for v in vs:
        op, kind, opts = v['case']['cause']
        kind = kind + v['key'].rsplit(':', 1)[1]
        fails.setdefault((op, kind), set()).add(frozenset(opts))
    keep = []
    sub = 0
    for v in vs:
        op, kind, opts = v['case']['cause']
        mine = frozenset(opts)
        kind = kind + v['key'].rsplit(':', 1)[1]
        if any(o < mine for o in fails[(op, kind)]):
            sub += 1
            continue
        keep.append(v)
    ctx.agg['violations'] = keep
    ctx.agg['extra']['violations_subsumed_by_smaller_option_set'] = sub


def shards(tier, seed):
    sh = []
    opts = sorted(option_settings(), key=deviations)
    default = dict(cse=True, graded=False, symcls='default', wrapper='none', pretty='𝐞')
    opts = [o for o in opts if o != default]
    reduced = [o for o in opts if (o['cse'], o['graded'], o['symcls'], o['wrapper']) in
               {(False, False, 'default', 'none'), (True, True, 'default', 'none'), (True, False, 'sympy', 'none'), (True, False, 'default', 'closure'),
                (False, True, 'sympy', 'identity'), (True, True, 'default', 'identity'), (False, True, 'default', 'closure'), (False, False, 'sympy', 'closure')}]
    six = reduced[:6]

    def add(stratum, cfg, olist, blocks):
        for o in olist:
            sh.append(dict(stratum=stratum, cfg=cfg, opt=o, blocks=blocks))
    if tier == 'quick':
        for c in [spaces.cfg_pqr(2, 0, 0), spaces.cfg_pqr(1, 0, 1)]:
            add('d=2: option settings with <=2 deviations from the default x all grade blocks (4 blocks when the sympy symbol class is used)', c,
                [o for o in opts if deviations(o) <= 2 and o['symcls'] != 'sympy'], 'all')
            add('d=2: option settings with <=2 deviations from the default x all grade blocks (4 blocks when the sympy symbol class is used)', c,
                [o for o in opts if deviations(o) <= 2 and o['symcls'] == 'sympy'], 'four')
            add('d=2: option settings with 3 and 4 deviations x 4 grade blocks', c, [o for o in opts if deviations(o) > 2 and o['symcls'] != 'sympy'], 'four')
        add('d=3: single-deviation option settings x 4 grade blocks (3 small blocks in Algebra(3))', spaces.cfg_pqr(2, 0, 1), [o for o in opts if deviations(o) == 1 and o['symcls'] != 'sympy'], 'four')
        for c in [spaces.cfg_pqr(4, 0, 0), spaces.cfg_pqr(3, 0, 1), spaces.NAMED['2DPGA'], spaces.NAMED['3DPGA'], spaces.cfg_pqr(5, 0, 0)]:
            add('basis blades under single-deviation option settings: d=4,5 and named custom bases', c, [o for o in opts if deviations(o) == 1 and o['symcls'] != 'sympy'], 'none')
        add('d=4 PGA: graded mode x 3 small grade blocks', spaces.cfg_pqr(3, 0, 1), [o for o in opts if deviations(o) == 1 and o['graded']], 'three')
        add('d=3: single-deviation option settings x 4 grade blocks (3 small blocks in Algebra(3))', spaces.cfg_pqr(3, 0, 0), [o for o in opts if deviations(o) == 1 and o['symcls'] != 'sympy'], 'three')
        n0 = len(sh)
        add('option variants derived with dataclasses.replace from a default algebra: single-deviation settings x 4 grade blocks', spaces.cfg_pqr(2, 0, 0), [o for o in opts if deviations(o) == 1], 'four')
        for x in sh[n0:]:
            x['derive'] = True
    else:
        nons = [o for o in opts if o['symcls'] != 'sympy']
        sym = [o for o in opts if o['symcls'] == 'sympy']
        # most expensive shards first (a sympy-symbol-class shard in d=3 takes ~5 CPU-minutes)
        for c in [spaces.cfg_pqr(3, 0, 0), spaces.cfg_pqr(2, 0, 1), spaces.cfg_pqr(1, 1, 1)]:
            add('d=3 (3 signatures): sympy symbol class settings with <=2 deviations x 4 grade blocks', c, [o for o in sym if deviations(o) <= 2], 'four')
        for t in spaces.pqr(3):
            add('d=3 pqr: all 11 non-sympy option settings x 6 grade blocks', spaces.cfg_pqr(*t), nons, 'six')
        for c in [spaces.cfg_pqr(*t) for d in (1, 2) for t in spaces.pqr(d)] + [spaces.cfg_sig(s) for s in spaces.mixed_orderings(2)]:
            add('d<=2: all 23 non-default option settings x all grade blocks (4 blocks for the sympy symbol class)', c, nons, 'all')
            add('d<=2: all 23 non-default option settings x all grade blocks (4 blocks for the sympy symbol class)', c, sym, 'four')
        for c in [spaces.cfg_pqr(4, 0, 0), spaces.cfg_pqr(3, 0, 1), spaces.cfg_pqr(1, 3, 0), spaces.cfg_sig([1, -1, 0, 1])]:
            add('d=4: single-deviation non-sympy settings x 3 small grade blocks', c, [o for o in nons if deviations(o) == 1], 'three')
        n0 = len(sh)
        for c in [spaces.cfg_pqr(2, 0, 0), spaces.cfg_pqr(1, 1, 0), spaces.cfg_pqr(3, 0, 0)]:
            add('option variants derived with dataclasses.replace from a default algebra: settings with <=2 deviations x 4 grade blocks', c, [o for o in nons if deviations(o) <= 2], 'four')
        for x in sh[n0:]:
            x['derive'] = True
        for c in [spaces.NAMED['2DPGA'], spaces.NAMED['3DPGA'], spaces.NAMED['STAP'], spaces.cfg_pqr(5, 0, 0), spaces.cfg_pqr(4, 1, 1)] + [spaces.cfg_sig([1, 1, -1], basis=b) for b in spaces.bases_by_deviation(3, 1)[1:]]:
            add('basis blades under all non-sympy option settings: d=5,6 and custom bases', c, nons, 'none')
    return sh


def blocks_for(alg, which):
    c = tuple(alg.canon2bin.values())
    G = spaces.G(c, alg.d)
    G = [g for g in G if g]
    if which == 'all':
        return G
    if which == 'none':
        return []
    d = alg.d
    g = spaces.grade_of
    pick = [(1,), (2,), (0, 2)] if which == 'three' else [(1,), (0, 2), (2,), (0, 1, 2, 3)[:d + 1]] if which == 'four' else [(0,), (1,), (2,), (0, 2), (1, 3)[:2 if d >= 3 else 1], tuple(range(d + 1))]
    out = []
    for gs in pick:
        t = tuple(k for k in c if g(k) in gs)
        if t and t not in out:
            out.append(t)
    return out


def values_for(keys, salt, floats=False):
    vs = [Fraction(2 + ((i * 7 + salt * 3) % 5), 1 + ((i + salt) % 3)) * (-1 if (i + salt) % 4 == 1 else 1) for i in range(len(keys))]
    return [float(v) for v in vs] if floats else vs


def outcome(thunk):
    try:
        r = thunk()
        return ('ok', mvdict(r)[0], r)
    except Exception as e:
        return ('exc', f'{type(e).__name__}: {e}'[:160], None)


def run_shard(shard):
    res = Result()
    cfg, opt = shard['cfg'], shard['opt']
    base = make_algebra(cfg)
    if shard.get('derive'):
        # the option variant is derived from an existing default algebra with dataclasses.replace (as kingdon's own tests do)
        import dataclasses
        import sympy
        kw = dict(cse=opt['cse'], graded=opt['graded'], pretty_blade=opt['pretty'])
        if opt['symcls'] == 'sympy':
            kw['codegen_symbolcls'] = sympy.Symbol
        if WRAPPERS[opt['wrapper']] is not None:
            kw['wrapper'] = WRAPPERS[opt['wrapper']]
        parent = make_algebra(cfg)
        alg = dataclasses.replace(parent, **kw)
    else:
        alg = build(cfg, opt)
    name = cfg_name(cfg)
    on = optname(opt)
    blocks = blocks_for(base, shard['blocks'])

    def judge(op, keysdesc, o0, o1, case):
        res.evals += 1
        if o0[0] == 'ok' and any((v != 0).any() if hasattr(v, 'shape') else v != 0 for v in o0[1].values()):
            res.nontrivial += 1
        osn = '+'.join(sorted(optset(opt)))
        metric = 'null-metric' if any(int(x) == 0 for x in base.signature) else 'non-null-metric'
        K = lambda kind: f'{op}:{kind}:{osn}:{metric}'
        case = dict(case)
        if o0[0] == 'exc':
            if o1[0] == 'ok':
                return   # options may succeed where the default raises; not judged
            return
        if o1[0] == 'exc':
            case['cause'] = (op, 'raises', sorted(optset(opt)))
            res.violate(violation(K('raises'), f'{name} [{on}] {op} on {keysdesc}: raises {o1[1]} although the default options succeed', case, show(o0[1]), o1[1]))
            return
        bad = [k for k in set(o0[1]) | set(o1[1]) if not close(o0[1].get(k, 0), o1[1].get(k, 0), 1e-9)]
        if bad:
            case['cause'] = (op, 'value', sorted(optset(opt)))
            res.violate(violation(K('value'), f'{name} [{on}] {op} on {keysdesc}: differs from default options on blades {sorted(bad)}', case, show(o0[1]), show(o1[1])))
            return
        r = o1[2]
        if r is not None and hasattr(r, 'algebra') and r.algebra is not alg:
            case['cause'] = (op, 'foreign-result', sorted(optset(opt)))
            res.violate(violation(K('foreign-result'), f'{name} [{on}] {op} on {keysdesc}: the result belongs to another Algebra object than its operands', case, 'alg', 'another algebra'))
            return
        if opt['graded']:
            r = o1[2]
            want = alg.indices_for_grades[r.grades]
            if tuple(r.keys()) != tuple(want) and len(r.keys()):
                case['cause'] = (op, 'incomplete-grades', sorted(optset(opt)))
                res.violate(violation(K('incomplete-grades'), f'{name} [{on}] {op} on {keysdesc}: result keys {tuple(r.keys())} are not the complete grades {r.grades}',
                                      case, want, tuple(r.keys())))
                return
            # chained use: the result must be usable as an operand
            res.evals += 1
            try:
                r + r
                r * r
            except Exception as e:
                case['cause'] = (op, 'chain', sorted(optset(opt)))
                res.violate(violation(K('chain'), f'{name} [{on}] result of {op} on {keysdesc} cannot be used in a further operation: {type(e).__name__}: {e}', case, 'usable', repr(e)))

    # basis blades handed out by the algebra under these options denote the same elements as with default options
    if not shard.get('only'):
        for nm in base.canon2bin:
            res.evals += 1
            try:
                want, _ = mvdict(base.blades[nm])
                got, _ = mvdict(alg.blades[nm])
                got = {k: v for k, v in got.items() if v != 0}
                if got != want:
                    c = {'shard': dict(shard, blocks=['list', []]), 'cause': ('blades', 'value', sorted(optset(opt)))}
                    metric = 'null-metric' if any(int(x) == 0 for x in base.signature) else 'non-null-metric'
                    res.violate(violation(f"blades:value:{'+'.join(sorted(optset(opt)))}:{metric}", f'{name} [{on}] alg.blades.{nm} is a different element than with default options', c, show(want), show(got)))
            except Exception as e:
                c = {'shard': dict(shard, blocks=['list', []]), 'cause': ('blades', 'raises', sorted(optset(opt)))}
                metric = 'null-metric' if any(int(x) == 0 for x in base.signature) else 'non-null-metric'
                res.violate(violation(f"blades:raises:{'+'.join(sorted(optset(opt)))}:{metric}", f'{name} [{on}] alg.blades.{nm} raises {type(e).__name__}: {e}', c, '', repr(e)))
    # exact python integers beyond 64 bits (a wrapper that silently converts operands to fixed-width arrays would wrap around),
    # and operands whose coefficients mix plain numbers with arrays
    if not shard.get('only'):
        import numpy as np
        big = 10 ** 13
        for ka in blocks[:4]:
            for kb in blocks[:3]:
                va = [big + 7 * i for i in range(len(ka))]
                vb = [-big + 11 * i for i in range(len(kb))]
                ma = [np.array([1.5, 2.5]) if i % 2 == 0 else 2 for i in range(len(ka))]
                for op in ('gp', 'add', 'op', 'sub'):
                    res.evals += 1
                    o0 = outcome(lambda: getattr(nmv(base, ka, va), op)(nmv(base, kb, vb)))
                    o1 = outcome(lambda: getattr(alg.multivector(keys=ka, values=list(va)), op)(alg.multivector(keys=kb, values=list(vb))))
                    if o0[0] == 'ok' and o1[0] == 'ok' and any(o0[1].get(k, 0) != o1[1].get(k, 0) for k in set(o0[1]) | set(o1[1])):
                        cs = {'shard': dict(shard, blocks=['list', [list(ka), list(kb)]]), 'cause': (op, 'bigint', sorted(optset(opt)))}
                        metric = 'null-metric' if any(int(x) == 0 for x in base.signature) else 'non-null-metric'
                        res.violate(violation(f"{op}:bigint:{'+'.join(sorted(optset(opt)))}:{metric}", f'{name} [{on}] {op} on {ka} x {kb} with 14-digit python integers differs from default options',
                                              cs, show(o0[1]), show(o1[1])))
                    elif o0[0] != o1[0]:
                        judge(op + ':bigint', f'{ka} x {kb} (big ints)', o0, o1, {'shard': dict(shard, blocks=['list', [list(ka), list(kb)]])})
                    res.evals += 1
                    m0 = outcome(lambda: getattr(nmv(base, ka, list(ma)), op)(nmv(base, kb, [1.0] * len(kb))))
                    m1 = outcome(lambda: getattr(alg.multivector(keys=ka, values=list(ma)), op)(alg.multivector(keys=kb, values=[1.0] * len(kb))))
                    if m0[0] == 'ok' and m1[0] != 'ok':
                        judge(op + ':mixed-array-scalar', f'{ka} x {kb} (coefficients mixing arrays and numbers)', m0, m1, {'shard': dict(shard, blocks=['list', [list(ka), list(kb)]])})
    # operands written as keyword blades in another order than the canonical one: construction (and a product) must succeed under
    # every option setting that default options accept
    if not shard.get('only'):
        for ka in blocks:
            if not (1 < len(ka) <= 6):
                continue
            res.evals += 1
            va = values_for(ka, 2)
            kw = {base.bin2canon[k]: v for k, v in reversed(list(zip(ka, va)))}
            o0 = outcome(lambda: base.multivector(**kw) + base.multivector(**kw))
            o1 = outcome(lambda: alg.multivector(**kw) + alg.multivector(**kw))
            judge('keyword-construction', f'{ka} (keywords in reversed order)', o0, o1, {'shard': dict(shard, blocks=['list', [list(ka)]])})
            res.evals -= 1
    # with a wrapper the operators look their function up by name: a second pass over all operators (everything is generated by then)
    # must give the same elements again
    for _pass in range(2 if opt['wrapper'] != 'none' else 1):
        for i, ka in enumerate(blocks):
            study = (0 in ka) and len({spaces.grade_of(k) for k in ka}) <= 2
            for op in UNARY:
                floats = op == 'sqrt'
                if op == 'sqrt' and not study:
                    continue
                va = values_for(ka, i, floats)
                if op == 'sqrt':
                    va[0] = abs(va[0]) + 3.0
                case = {'shard': dict(shard, blocks=['list', [list(ka)]], only=op)}
                if shard.get('only') and shard['only'] != op:
                    continue
                o0 = outcome(lambda: getattr(nmv(base, ka, va), op)())
                o1 = outcome(lambda: getattr(alg.multivector(keys=ka, values=list(va)), op)())
                judge(op, f'{ka}', o0, o1, case)
            for j, kb in enumerate(blocks):
                va, vb = values_for(ka, i), values_for(kb, j + 5)
                for op in BINARY:
                    if shard.get('only') and shard['only'] != op:
                        continue
                    case = {'shard': dict(shard, blocks=['list', [list(ka), list(kb)]], only=op)}
                    o0 = outcome(lambda: getattr(nmv(base, ka, va), op)(nmv(base, kb, vb)))
                    o1 = outcome(lambda: getattr(alg.multivector(keys=ka, values=list(va)), op)(alg.multivector(keys=kb, values=list(vb))))
                    judge(op, f'{ka} x {kb}', o0, o1, case)
    res.sample({'config': name, 'options': on, 'blocks': [list(b) for b in blocks][:4], 'operators': len(UNARY) + len(BINARY)})
    return res.asdict()


def replay(case):
    sh = dict(case['shard'])
    b = sh['blocks']
    res_all = None
    # blocks given as explicit list
    sh2 = dict(sh)

    def blocks_override(alg, which):
        return [tuple(x) for x in b[1]]
    global blocks_for
    saved = blocks_for
    blocks_for = blocks_override
    try:
        return run_shard(sh2)
    finally:
        blocks_for = saved
