"""Deterministic, simplest-first enumerators of the finite spaces the checks explore.
Every generator has a closed form count used by the self test."""
from itertools import combinations, permutations, product
from math import comb, factorial


# ---------------------------------------------------------------- configurations
def sig(d):
    """All 3^d signature sequences over (1,-1,0), all-positive first."""
    return [list(s) for s in product((1, -1, 0), repeat=d)]


def sigs_upto(d):
    return [s for k in range(d + 1) for s in sig(k)]


def pqr(d):
    """The (d+1)(d+2)/2 default constructions Algebra(p,q,r) with p+q+r=d."""
    return [(p, q, d - p - q) for p in range(d, -1, -1) for q in range(d - p, -1, -1)]


def cfg_sig(s, start_index=None, basis=None):
    c = {'signature': list(s)}
    if start_index is not None:
        c['start_index'] = start_index
    if basis is not None:
        c['basis'] = list(basis)
    return c


def cfg_pqr(p, q, r, start_index=None, basis=None):
    c = {'p': p, 'q': q, 'r': r}
    if start_index is not None:
        c['start_index'] = start_index
    if basis is not None:
        c['basis'] = list(basis)
    return c


def mixed_orderings(d):
    """A few signature orderings that are not of the sorted (p,q,r) form."""
    out = {2: [[-1, 1], [0, 1], [1, 0], [0, -1]],
           3: [[-1, 1, 1], [1, 0, 1], [1, -1, 0], [0, -1, 1]],
           4: [[-1, 1, 1, 1], [1, 0, 1, -1], [0, 0, 1, 1], [1, -1, 1, -1], [-1, 0, 1, 0], [1, 1, 0, -1]],
           5: [[1, -1, 1, 0, 1], [0, 1, 1, 1, -1]]}
    return out.get(d, [])


# ---------------------------------------------------------------- custom bases
def default_basis(d, start=1):
    return ['e' + ''.join(format(g + start, 'x') for g in c) for k in range(d + 1) for c in combinations(range(d), k)]


def all_bases(d, start=1):
    """Every admissible custom basis of dimension d: generator order x per-blade spelling x order within grade.
    d=2: 2*2 = 4 ... wait generator order 2!, spelling of e12 2!, within-grade orders are determined
    by the generator order for grade 1 (the vectors *are* the generator order) -> for grade>=2: permutations."""
    labels = [format(g + start, 'x') for g in range(d)]
    out = []
    for gen_order in permutations(labels):
        grades = [['e'], ['e' + c for c in gen_order]]
        per_grade = []
        for k in range(2, d + 1):
            blades = list(combinations(labels, k))
            spell = [list(permutations(b)) for b in blades]
            opts = []
            for choice in product(*spell):
                for order in permutations(choice):
                    opts.append(['e' + ''.join(w) for w in order])
            per_grade.append(opts)
        for tail in product(*per_grade):
            b = ['e'] + grades[1]
            for g in tail:
                b = b + g
            out.append(b)
    return out


def count_all_bases(d):
    n = factorial(d)
    for k in range(2, d + 1):
        c = comb(d, k)
        n *= factorial(k) ** c * factorial(c)
    return n


def bases_by_deviation(d, maxdev, start=1):
    """Bases reachable from the default basis by at most maxdev deviations; a deviation is one
    transposition of two generators in the vector order, one adjacent swap of two blades inside a grade
    (grade >= 2), or one blade (grade >= 2) respelled by a transposition of two of its letters."""
    base = tuple(default_basis(d, start))
    seen = {base: 0}
    frontier = [base]
    for dev in range(1, maxdev + 1):
        nxt = []
        for b in frontier:
            for nb in _neighbours(list(b), d):
                t = tuple(nb)
                if t not in seen:
                    seen[t] = dev
                    nxt.append(t)
        frontier = nxt
    return [list(b) for b, _ in sorted(seen.items(), key=lambda kv: (kv[1], kv[0]))]


def _neighbours(b, d):
    # grade boundaries
    idx = {}
    for i, name in enumerate(b):
        idx.setdefault(len(name) - 1, []).append(i)
    # transposition of two generators in the vector order
    v = idx.get(1, [])
    for i, j in combinations(v, 2):
        nb = b[:]
        nb[i], nb[j] = nb[j], nb[i]
        yield nb
    for g in range(2, d + 1):
        pos = idx.get(g, [])
        for i, j in zip(pos, pos[1:]):
            nb = b[:]
            nb[i], nb[j] = nb[j], nb[i]
            yield nb
        for i in pos:
            w = b[i][1:]
            for x, y in combinations(range(len(w)), 2):
                l = list(w)
                l[x], l[y] = l[y], l[x]
                nb = b[:]
                nb[i] = 'e' + ''.join(l)
                yield nb


NAMED = {
    '2DPGA': (cfg_pqr(2, 0, 1, basis=["e", "e1", "e2", "e0", "e20", "e01", "e12", "e012"])),
    '3DPGA': (cfg_pqr(3, 0, 1, basis=["e", "e1", "e2", "e3", "e0", "e01", "e02", "e03", "e12", "e31", "e23",
                                    "e032", "e013", "e021", "e123", "e0123"])),
    'STAP': (cfg_pqr(3, 1, 1, basis=["e", "e0", "e1", "e2", "e3", "e4",
                                   "e01", "e02", "e03", "e40", "e12", "e31", "e23", "e41", "e42", "e43",
                                   "e234", "e314", "e124", "e123", "e014", "e024", "e034", "e032", "e013", "e021",
                                   "e0324", "e0134", "e0214", "e0123", "e1234", "e01234"])),
}


# ---------------------------------------------------------------- key tuples
def T(n, maxsize=None):
    """All ordered tuples without repetition over range(n) (n = number of blades), by size then lexicographic."""
    maxsize = n if maxsize is None else min(maxsize, n)
    out = []
    for k in range(maxsize + 1):
        out.extend(permutations(range(n), k))
    return out


def count_T(n, maxsize=None):
    maxsize = n if maxsize is None else min(maxsize, n)
    return sum(factorial(n) // factorial(n - k) for k in range(maxsize + 1))


def S(canon, maxsize=None):
    """All subsets of the canonical key order `canon` (a tuple of keys), as tuples in canonical order,
    by size then lexicographic position."""
    n = len(canon)
    maxsize = n if maxsize is None else min(maxsize, n)
    out = []
    for k in range(maxsize + 1):
        out.extend(tuple(canon[i] for i in c) for c in combinations(range(n), k))
    return out


def grade_of(key):
    return bin(key).count('1')


def G(canon, d):
    """The 2^(d+1) grade-block key tuples (canonical order within the block)."""
    out = []
    for k in range(d + 2):
        for gs in combinations(range(d + 1), k):
            out.append(tuple(key for key in canon if grade_of(key) in gs))
    return out


def layouts(keys, canon, pads='std'):
    """Storage layouts of the key set `keys`: all permutations x paddings
    {none, each single extra blade, full canonical, full binary order, full reversed}."""
    keys = tuple(keys)
    n = len(canon)
    out = []
    seen = set()

    def add(t):
        if t not in seen:
            seen.add(t)
            out.append(t)
    for p in permutations(keys):
        add(p)
    for extra in canon:
        if extra not in keys:
            add(keys + (extra,))
            add((extra,) + keys)
    add(tuple(canon))
    add(tuple(sorted(canon)))
    add(tuple(reversed(canon)))
    return out


def chunks(lst, n):
    """Split lst into at most n contiguous chunks of nearly equal size."""
    n = max(1, min(n, len(lst)))
    k, m = divmod(len(lst), n)
    out, i = [], 0
    for j in range(n):
        sz = k + (1 if j < m else 0)
        out.append(lst[i:i + sz])
        i += sz
    return out
