#!/bin/sh
# usage: ./run_all.sh quick|thorough [ids...]   - runs the registered checks sequentially, prints one summary line each
tier=${1:-quick}; shift
ids="$@"; [ -z "$ids" ] && ids="C01 C02 C03 C04 C05 C06 C07 C08 C09 C10 C11 C12 C13 C14 C15 C16 C17 C18 C19 C20"
for p in $ids; do
  out=$(./check $p $tier 2>&1); rc=$?
  echo "rc=$rc $(echo "$out" | grep "^$p $tier" | tail -1)"
  echo "$out" | grep -E "^VIOLATION|FRAMEWORK" | head -5
done
