#!/venv/bin/python
"""Evaluate a seeded (property breaking) change against the checks.

usage: tools/seed_eval.py <seed dir with patch.diff + demo.py> <seed id> <property id> [checks to run, default: the property's] [--tier quick]

Steps (all in a scratch git worktree of /repo under /tmp, removed afterwards; /repo itself is never touched):
  1. demo.py on the clean tree          -> must exit 0
  2. apply patch.diff, run the test suite -> must pass (105)
  3. demo.py on the changed tree         -> must exit non-zero
  4. run the listed checks with KINGDON_REPO=<scratch>  -> record which report a VIOLATION
Writes /verif/seeded/<seed id>/{patch.diff, demo.py, meta.json}.
"""
import json
import os
import re
import shutil
import subprocess
import sys
import time

ROOT = os.path.dirname(os.path.dirname(os.path.abspath(__file__)))
PY = '/venv/bin/python'


def sh(cmd, cwd=None, env=None, timeout=3600):
    p = subprocess.run(cmd, shell=True, cwd=cwd, env=env, capture_output=True, text=True, timeout=timeout)
    return p.returncode, p.stdout + p.stderr


def main():
    args = [a for a in sys.argv[1:] if not a.startswith('--')]
    tier = 'quick'
    if '--tier' in sys.argv:
        tier = sys.argv[sys.argv.index('--tier') + 1]
        args = [a for a in args if a != tier]
    src, sid, pid = args[0], args[1], args[2]
    checks = args[3:] or [pid]
    dst = os.path.join(ROOT, 'seeded', sid)
    os.makedirs(dst, exist_ok=True)
    patch = open(os.path.join(src, 'patch.diff')).read()
    demo = open(os.path.join(src, 'demo.py')).read()
    # make the demonstration location independent
    if '/tmp/mut/' in demo:
        demo = re.sub(r"(['\"])/tmp/mut/C\d+(/?)\1", lambda m: "(_KREPO + %r)" % m.group(2), demo)
        demo = "import os as _os\n_KREPO = _os.environ.get('KINGDON_REPO', '/repo')\n" + demo
    open(os.path.join(dst, 'patch.diff'), 'w').write(patch)
    open(os.path.join(dst, 'demo.py'), 'w').write(demo)
    note = ''
    if os.path.exists(os.path.join(src, 'note.txt')):
        note = open(os.path.join(src, 'note.txt')).read()
    scratch = f'/tmp/seval_{sid}_{os.getpid()}'
    rc, out = sh(f'git -C /repo worktree add -q --detach {scratch} HEAD')
    assert rc == 0, out
    meta = {'seed': sid, 'property': pid, 'needs_to_manifest': note.strip(), 'repo_commit': sh('git -C /repo rev-parse --short HEAD')[1].strip(), 'ran': []}
    env = dict(os.environ, KINGDON_REPO=scratch, PYTHONDONTWRITEBYTECODE='1')
    try:
        rc, out = sh(f'{PY} -B {dst}/demo.py', cwd=scratch, env=env, timeout=900)
        meta['demo_on_clean_tree_rc'] = rc
        meta['ran'].append(f'demo.py on clean tree -> rc={rc}')
        rc, out = sh(f'git apply {dst}/patch.diff', cwd=scratch)
        meta['patch_applies'] = rc == 0
        if rc != 0:
            meta['error'] = out[-500:]
            return finish(meta, dst)
        rc, out = sh(f'{PY} -B -m pytest -q -p no:cacheprovider --timeout=900 -n 6', cwd=scratch, env=dict(os.environ, PYTHONDONTWRITEBYTECODE='1'), timeout=1800)
        tail = [l for l in out.strip().splitlines() if 'passed' in l or 'failed' in l][-1:] or [out[-200:]]
        meta['tests_with_change'] = tail[0]
        meta['tests_pass_with_change'] = rc == 0 and '105 passed' in tail[0]
        meta['ran'].append(f'pytest with change -> {tail[0]}')
        rc, out = sh(f'{PY} -B {dst}/demo.py', cwd=scratch, env=env, timeout=900)
        meta['demo_with_change_rc'] = rc
        meta['demo_with_change_tail'] = out.strip()[-300:]
        meta['ran'].append(f'demo.py with change -> rc={rc}')
        meta['valid_seed'] = meta['demo_on_clean_tree_rc'] == 0 and meta['tests_pass_with_change'] and rc != 0
        meta['detected_by'] = {}
        for c in checks:
            t0 = time.time()
            env2 = dict(env, VERIF_SEED=os.environ.get('VERIF_SEED', '0'))
            # evidence of the real tree must not be overwritten by an evaluation run: use a private evidence dir via copy/restore
            ev = os.path.join(ROOT, 'evidence', f'{c}.json')
            bak = ev + '.bak'
            if os.path.exists(ev):
                shutil.copy(ev, bak)
            rc, out = sh(f'./check {c} {tier}', cwd=ROOT, env=env2, timeout=7200)
            if os.path.exists(bak):
                shutil.move(bak, ev)
            vio = [l for l in out.splitlines() if l.startswith('VIOLATION')]
            what = [l.strip() for l in out.splitlines() if l.strip().startswith('violation:')][:2]
            meta['detected_by'][c] = {'tier': tier, 'rc': rc, 'violations': len(vio), 'first': what, 'wall_s': round(time.time() - t0, 1)}
            meta['ran'].append(f'./check {c} {tier} with KINGDON_REPO=<scratch with change> -> rc={rc}, {len(vio)} VIOLATION lines')
    finally:
        sh(f'git -C /repo worktree remove --force {scratch}')
        shutil.rmtree(scratch, ignore_errors=True)
    return finish(meta, dst)


def finish(meta, dst):
    old = os.path.join(dst, 'meta.json')
    if os.path.exists(old):
        try:
            prev = json.load(open(old))
            hist = prev.get('earlier_runs', [])
            if prev.get('detected_by'):
                hist.append({'verif_commit': prev.get('verif_commit'), 'detected_by': {c: ('DETECTED' if d['rc'] == 1 else 'missed') for c, d in prev['detected_by'].items()}})
            meta['earlier_runs'] = hist
        except Exception:
            pass
    meta['verif_commit'] = sh('git -C %s rev-parse --short HEAD' % ROOT)[1].strip()
    with open(os.path.join(dst, 'meta.json'), 'w') as f:
        json.dump(meta, f, indent=1)
    print(json.dumps({k: meta.get(k) for k in ('seed', 'property', 'valid_seed', 'tests_with_change', 'demo_on_clean_tree_rc', 'demo_with_change_rc')}, indent=None))
    for c, d in meta.get('detected_by', {}).items():
        print(f"  {c}: rc={d['rc']} violations={d['violations']} {d['first'][:1]}")
    return 0


if __name__ == '__main__':
    sys.exit(main())
