#!/venv/bin/python
"""Regenerates seeded/SUMMARY.md from seeded/*/meta.json."""
import glob
import json
import os

ROOT = os.path.dirname(os.path.dirname(os.path.abspath(__file__)))
rows = []
for f in sorted(glob.glob(os.path.join(ROOT, 'seeded', '*', 'meta.json'))):
    m = json.load(open(f))
    det = []
    for c, d in m.get('detected_by', {}).items():
        det.append(f"{c} {d['tier']}: {'DETECTED' if d['rc'] == 1 else 'missed' if d['rc'] == 0 else 'error'}")
    need = ' '.join(m.get('needs_to_manifest', '').split())[:160]
    rows.append(f"| {m['seed']} | {m['property']} | {'yes' if m.get('valid_seed') else 'NO'} | {'; '.join(det)} | {need} |")
with open(os.path.join(ROOT, 'seeded', 'SUMMARY.md'), 'w') as f:
    f.write('# Seeded property-breaking changes\n\n'
            'valid = tests pass with the change, demo fails with it and passes without it (checked by tools/seed_eval.py in a scratch worktree).\n\n'
            '| seed | property | valid | checks run against it | what it needs to manifest |\n|---|---|---|---|---|\n')
    f.write('\n'.join(rows) + '\n')
print(len(rows), 'seeds')
