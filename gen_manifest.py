#!/venv/bin/python
"""Regenerates MANIFEST.json from the table below (python3 gen_manifest.py)."""
import json
import os

ROOT = os.path.dirname(os.path.abspath(__file__))

MC = 'model_checking'
EX = 'exploration'

# pid: (level, technique, level text, level note, design ref)
CHECKS = {
    'C02': (EX, 'bounded exhaustive enumeration of programs (ordered key-tuple pairs) x generic point evaluation of the real generated functions',
            'Every ordered pair of key tuples up to the stated bound is executed on the real OperatorDict with distinct '
            'indeterminates as coefficients and compared with the bilinear extension of the blade table; a pass is a '
            'statement about all coefficient values of all enumerated programs, not a sample.',
            'Trusts kverif.ring.P (free commutative ring, self-tested) and the blade table checked by C01; programs beyond the bound (dense d>=5) are not covered.',
            '4 C02'),
    'C01': (EX, 'bounded exhaustive enumeration of algebra configurations (signature orderings x start index x custom bases by deviation) x all blade pairs/triples',
            'Every configuration up to the bound is constructed and its complete sign table is compared entry by entry with the word oracle and with the Clifford relations stated on the table itself.',
            'Trusts kverif.oracle (bubble-sort word product, self-tested); bases of d>=4 beyond the deviation bound and d>=9 are not covered.', '4 C01'),
    'C03': (EX, 'bounded exhaustive enumeration of programs (key-tuple pairs) x 7 operators x generic point evaluation',
            'Same program space as C02 for op/ip/lc/rc/sp/cp/acp; reference terms are selected by the grades of the oracle words; derived identities checked on kingdon\'s own results.',
            'Trusts kverif.ring.P and the blade table (C01).', '4 C03'),
    'C04': (EX, 'bounded exhaustive enumeration of key tuples and grade selections x generic point evaluation',
            'All ordered key tuples (d<=2), canonical subsets (d=3,4) and grade blocks up to d=8 for add/sub/neg/involutions/grade(); (anti)automorphism laws on generic operands.',
            'Trusts kverif.ring.P; grade of a blade = length of its oracle word.', '4 C04'),
    'C05': (EX, 'bounded exhaustive enumeration of configurations (incl. custom bases with reoriented pseudoscalar) and operand patterns x generic point evaluation',
            'Every clause of the statement is evaluated with kingdon\'s own elementary operators (literal composition) and against the reference Hodge dual defined from J.',
            'Trusts C02-C04 for the elementary operators used in the compositions.', '4 C05'),
    'C09': (MC, 'explicit-state BFS over call histories of a live Algebra (state = canonical abstraction of its caches, every transition replayed on the real object) + stateless exploration of all thread interleavings up to a preemption bound under an own deterministic scheduler + enumeration of wrapper fault points',
            'The reachable cache states of the listed alphabets are explored to fixpoint; every transition is an execution of the implementation compared with a fresh-algebra run; every schedule of the thread harnesses within the preemption bound is executed.',
            'Soundness of state merging rests on the abstraction argument of DESIGN.md 3.3; thread switches are explored at line granularity in kingdon/*.py (polynomial.py excluded with a locality argument).', '4 C09'),
    'C10': (MC, 'explicit-state search over call histories with generation-event counters (builtins.compile, do_codegen, do_compile observed from outside the repository)',
            'All histories of the stated shapes over operators x key patterns x coefficient types are executed on fresh algebras; the invariant (no generation for a cached label, each label generated at most once, caches monotone) is evaluated on every transition.',
            'Assumes every generation path ends in builtins.compile from a kingdon frame (un-attributed compiles are counted and reported).', '4 C10'),
}

PENDING = {
}

ALL = [f'C{i:02d}' for i in range(1, 21)]


def main():
    checks = []
    for pid in ALL:
        if pid not in CHECKS:
            continue
        level, tech, text, note, ref = CHECKS[pid]
        checks.append({
            'property_id': pid,
            'quick_cmd': f'./check {pid} quick',
            'thorough_cmd': f'./check {pid} thorough',
            'evidence_file': f'/verif/evidence/{pid}.json',
            'replay_cmd_template': f'./check {pid} --replay {{path}}',
            'engine': 'kverif',
            'level_claimed': {'category': level, 'text': text, 'design_ref': f'DESIGN.md section {ref}'},
            'level_note': note,
            'technique': tech,
        })
    na = [{'property_id': pid, 'reason': PENDING.get(pid, 'check not built yet in this session (planned, see DESIGN.md section 4); not claimed until it exists')}
          for pid in ALL if pid not in CHECKS]
    man = {
        'version': 1,
        'setup_cmd': './check selftest',
        'hooks': {
            'guard': 'KINGDON_VERIF',
            'enable': 'no source hooks are needed: the checks observe kingdon from outside (builtins.compile, module attributes, '
                      'sys.settrace, the wrapper= option); KINGDON_VERIF=1 is exported by the runner but read by nothing in /repo',
            'baseline_off_cmd': 'cd /repo && env -u KINGDON_VERIF /venv/bin/python -m pytest -q -p no:cacheprovider --timeout=900',
            'source_commits': [],
            'add_only': True,
        },
        'engines': [
            {'name': 'kverif', 'path': '/verif/kverif', 'serves_properties': [c['property_id'] for c in checks],
             'kind_free_text': 'hand-written bounded exhaustive explorers in Python: program/configuration enumerators with a generic-point '
                               'value domain, explicit-state BFS over call histories of a live Algebra, deterministic thread scheduler with '
                               'iterative preemption bounding'},
        ],
        'checks': checks,
        'notes': 'All checks run against /repo (override with KINGDON_REPO for scratch worktrees). Exit 2 = framework error, never a verdict.',
        'not_applicable': na,
    }
    with open(os.path.join(ROOT, 'MANIFEST.json'), 'w') as f:
        json.dump(man, f, indent=1)
    print('MANIFEST.json written:', len(checks), 'checks,', len(na), 'not claimed')


if __name__ == '__main__':
    main()
