#!/venv/bin/python
"""Regenerates MANIFEST.json from the table below (python3 gen_manifest.py)."""
import json
import os

ROOT = os.path.dirname(os.path.abspath(__file__))

MC = 'model_checking'
EX = 'exploration'

# pid: (level, technique, level text, level note, design ref)
CHECKS = {
    'C02': (EX, 'bounded exhaustive enumeration of programs (ordered key-tuple pairs) x generic point evaluation of the real generated functions',
            'Every ordered pair of key tuples up to the stated bound is executed on the real OperatorDict with distinct '
            'indeterminates as coefficients and compared with the bilinear extension of the blade table; a pass is a '
            'statement about all coefficient values of all enumerated programs, not a sample.',
            'Trusts kverif.ring.P (free commutative ring, self-tested) and the blade table checked by C01; programs beyond the bound (dense d>=5) are not covered.',
            '4 C02'),
}

PENDING = {
}

ALL = [f'C{i:02d}' for i in range(1, 21)]


def main():
    checks = []
    for pid in ALL:
        if pid not in CHECKS:
            continue
        level, tech, text, note, ref = CHECKS[pid]
        checks.append({
            'property_id': pid,
            'quick_cmd': f'./check {pid} quick',
            'thorough_cmd': f'./check {pid} thorough',
            'evidence_file': f'/verif/evidence/{pid}.json',
            'replay_cmd_template': f'./check {pid} --replay {{path}}',
            'engine': 'kverif',
            'level_claimed': {'category': level, 'text': text, 'design_ref': f'DESIGN.md section {ref}'},
            'level_note': note,
            'technique': tech,
        })
    na = [{'property_id': pid, 'reason': PENDING.get(pid, 'check not built yet in this session (planned, see DESIGN.md section 4); not claimed until it exists')}
          for pid in ALL if pid not in CHECKS]
    man = {
        'version': 1,
        'setup_cmd': './check selftest',
        'hooks': {
            'guard': 'KINGDON_VERIF',
            'enable': 'no source hooks are needed: the checks observe kingdon from outside (builtins.compile, module attributes, '
                      'sys.settrace, the wrapper= option); KINGDON_VERIF=1 is exported by the runner but read by nothing in /repo',
            'baseline_off_cmd': 'cd /repo && env -u KINGDON_VERIF /venv/bin/python -m pytest -q -p no:cacheprovider --timeout=900',
            'source_commits': [],
            'add_only': True,
        },
        'engines': [
            {'name': 'kverif', 'path': '/verif/kverif', 'serves_properties': [c['property_id'] for c in checks],
             'kind_free_text': 'hand-written bounded exhaustive explorers in Python: program/configuration enumerators with a generic-point '
                               'value domain, explicit-state BFS over call histories of a live Algebra, deterministic thread scheduler with '
                               'iterative preemption bounding'},
        ],
        'checks': checks,
        'notes': 'All checks run against /repo (override with KINGDON_REPO for scratch worktrees). Exit 2 = framework error, never a verdict.',
        'not_applicable': na,
    }
    with open(os.path.join(ROOT, 'MANIFEST.json'), 'w') as f:
        json.dump(man, f, indent=1)
    print('MANIFEST.json written:', len(checks), 'checks,', len(na), 'not claimed')


if __name__ == '__main__':
    main()
