#!/venv/bin/python
"""Regenerates MANIFEST.json from the table below (python3 gen_manifest.py)."""
import json
import os

ROOT = os.path.dirname(os.path.abspath(__file__))

MC = 'model_checking'
EX = 'exploration'

# pid: (level, technique, level text, level note, design ref)
CHECKS = {
    'C02': (EX, 'bounded exhaustive enumeration of programs (ordered key-tuple pairs) x generic point evaluation of the real generated functions',
            'Every ordered pair of key tuples up to the stated bound is executed on the real OperatorDict with distinct '
            'indeterminates as coefficients and compared with the bilinear extension of the blade table; a pass is a '
            'statement about all coefficient values of all enumerated programs, not a sample.',
            'Trusts kverif.ring.P (free commutative ring, self-tested) and the blade table checked by C01; programs beyond the bound (dense d>=5) are not covered.',
            '4 C02'),
    'C01': (EX, 'bounded exhaustive enumeration of algebra configurations (signature orderings x start index x custom bases by deviation) x all blade pairs/triples',
            'Every configuration up to the bound is constructed and its complete sign table is compared entry by entry with the word oracle and with the Clifford relations stated on the table itself.',
            'Trusts kverif.oracle (bubble-sort word product, self-tested); bases of d>=4 beyond the deviation bound and d>=9 are not covered.', '4 C01'),
    'C03': (EX, 'bounded exhaustive enumeration of programs (key-tuple pairs) x 7 operators x generic point evaluation',
            'Same program space as C02 for op/ip/lc/rc/sp/cp/acp; reference terms are selected by the grades of the oracle words; derived identities checked on kingdon\'s own results.',
            'Trusts kverif.ring.P and the blade table (C01).', '4 C03'),
    'C04': (EX, 'bounded exhaustive enumeration of key tuples and grade selections x generic point evaluation',
            'All ordered key tuples (d<=2), canonical subsets (d=3,4) and grade blocks up to d=8 for add/sub/neg/involutions/grade(); (anti)automorphism laws on generic operands.',
            'Trusts kverif.ring.P; grade of a blade = length of its oracle word.', '4 C04'),
    'C05': (EX, 'bounded exhaustive enumeration of configurations (incl. custom bases with reoriented pseudoscalar) and operand patterns x generic point evaluation',
            'Every clause of the statement is evaluated with kingdon\'s own elementary operators (literal composition) and against the reference Hodge dual defined from J.',
            'Trusts C02-C04 for the elementary operators used in the compositions.', '4 C05'),
    'C09': (MC, 'explicit-state BFS over call histories of a live Algebra (state = canonical abstraction of its caches, every transition replayed on the real object) + stateless exploration of all thread interleavings up to a preemption bound under an own deterministic scheduler + enumeration of wrapper fault points',
            'The reachable cache states of the listed alphabets are explored to fixpoint; every transition is an execution of the implementation compared with a fresh-algebra run; every schedule of the thread harnesses within the preemption bound is executed.',
            'Soundness of state merging rests on the abstraction argument of DESIGN.md 3.3; thread switches are explored at line granularity in kingdon/*.py (polynomial.py excluded with a locality argument).', '4 C09'),
    'C10': (MC, 'explicit-state search over call histories with generation-event counters (builtins.compile, do_codegen, do_compile observed from outside the repository)',
            'All histories of the stated shapes over operators x key patterns x coefficient types are executed on fresh algebras; the invariant (no generation for a cached label, each label generated at most once, caches monotone) is evaluated on every transition.',
            'Assumes every generation path ends in builtins.compile from a kingdon frame (un-attributed compiles are counted and reported).', '4 C10'),
    'C06': (EX, 'bounded exhaustive enumeration of programs x generic point evaluation of optimised function vs literal composition',
            'sw/proj/normsq generated functions and the compositions a*b*~a, (a|b)*~b, a*~a are run on distinct indeterminates and compared as polynomials; a dropped blade must have an identically zero reference polynomial.',
            'Trusts C02-C04 for gp/ip/reverse.', '4 C06'),
    'C07': (EX, 'bounded exhaustive enumeration of key patterns x (generic point of the fraction field + exhaustive Fraction grid) against an exact linear-solve oracle',
            'x*inv(x) = inv(x)*x = 1 is decided as an identity of rational functions per pattern, and on every grid point; ZeroDivisionError is accepted only where exact Gauss elimination finds no inverse.',
            'Reference products by kverif.oracle; dense operands in d>=5 and floats near singularity are out of reach.', '4 C07'),
    'C08': (EX, 'bounded exhaustive enumeration of storage layouts (permutations x zero paddings) per operator and base operand, metamorphic oracle',
            'Every layout of every base operand up to the bound is run through every operator and compared coefficient-wise with the canonical sparse layout on generic coefficients.',
            'sqrt/norm/exp only inside the domain of C19.', '4 C08'),
    'C11': (EX, 'bounded exhaustive enumeration of programs (expression trees as source text, complete to depth 2) registered numerically and symbolically vs direct evaluation',
            'Every expression of the documented grammar up to depth 2 is compiled, registered and compared with plain evaluation on several argument layouts; constructs outside the grammar may raise but not differ.',
            'Direct evaluation is the reference; known findings for symbolic registration are listed in known_findings.json.', '4 C11'),
    'C12': (EX, 'bounded exhaustive enumeration of operators x key patterns x all symbolic/numeric partitions, three evaluation routes vs numeric evaluation',
            'For every partition of the stored coefficients into symbols and numbers the symbolic result is evaluated by keyword call, positional call and sympy substitution and compared with the numeric operator.',
            'Numeric evaluation is the reference (C02-C08); two rational assignments per case.', '4 C12'),
    'C13': (EX, 'bounded exhaustive enumeration of option settings (ordered by deviations from the default) x operators x grade-block patterns, differential oracle against default options',
            'All 23 non-default settings of {cse, graded, codegen_symbolcls, wrapper} are compared with the default algebra; graded mode additionally checked for complete grades and chained use; violations are reduced to minimal option sets.',
            'Default-options algebra is the reference.', '4 C13'),
    'C14': (EX, 'bounded exhaustive enumeration of custom bases / start indices x operators x blades, oracle = relabelling map into the word algebra; all ordered algebra pairs for rejection',
            'phi(op_custom(x,y)) == op_ref(phi x, phi y) on all blade pairs (complete by bilinearity) and small Fraction-valued subsets; every ordered pair of algebras with different metric or basis must be rejected.',
            'Reference = kverif.oracle; asmatrix in custom bases is a recorded finding.', '4 C14'),
    'C15': (EX, 'bounded exhaustive enumeration of construction forms x key subsets/orders x blade spellings x accessors',
            'Every construction form is read back through every accessor and every spelling; invalid inputs must raise.', 'Oracle = the dict of supplied coefficients.', '4 C15'),
    'C16': (EX, 'bounded exhaustive enumeration of operand kinds on either side of every infix operator, array shapes x containers x index expressions',
            'All (left kind, right kind) pairs for the 9 infix operators; op(X,Y)[idx] == op(X[idx],Y[idx]) for every operator, shape, container and index expression; setitem before/after snapshots.',
            'Named operators on plain multivectors are the reference.', '4 C16'),
    'C17': (MC, 'explicit-state BFS over the values reachable through the public Polynomial/RationalPolynomial operators (state = structural form), invariant = denotation homomorphism into the fraction field',
            'All values reachable in 3 (quick) / 4 (thorough) operator applications from the atoms are generated; every transition is executed on the implementation and compared with exact rational-function arithmetic.',
            'Trusts kverif.ring.R; mixing the two classes and x**0 are not judged.', '4 C17'),
    'C18': (EX, 'bounded exhaustive enumeration of signatures/bases x blade pairs (complete by bilinearity) and of linear expressions x key patterns x input kinds for expr_as_matrix',
            'Homomorphism, first column and frommatrix round trip on all blade pairs; A.coeffs(x) == coeffs(f(R,x)) at rational points for every expression, pattern and kind of R.', 'Blade table from C01.', '4 C18'),
    'C19': (EX, 'bounded exhaustive enumeration of operand patterns x value grids x coefficient types inside the stated domains, series / defining identities as oracle',
            'Outer exponentials against the finite wedge sum on the generic point; exp against a 40-term power series for every enumerated simple element; sqrt, powers, norms against their identities.',
            'Reference algebra = kverif.oracle; tolerance 1e-9.', '4 C19'),
    'C20': (MC, 'explicit-state search over drag-event sequences on live widgets for every enumerated scene, decoded by a literal port of graph.js',
            'Every scene up to the leaf bound is rendered and decoded; for scenes with draggable points all drag sequences up to the depth bound are applied through the traitlet and the live multivectors re-read.',
            'kverif.frontend is a port of graph.js decode/encode; ganja.js rendering itself is out of scope.', '4 C20'),
}

PENDING = {
}

ALL = [f'C{i:02d}' for i in range(1, 21)]


def main():
    checks = []
    for pid in ALL:
        if pid not in CHECKS:
            continue
        level, tech, text, note, ref = CHECKS[pid]
        checks.append({
            'property_id': pid,
            'quick_cmd': f'./check {pid} quick',
            'thorough_cmd': f'./check {pid} thorough',
            'evidence_file': f'/verif/evidence/{pid}.json',
            'replay_cmd_template': f'./check {pid} --replay {{path}}',
            'engine': 'kverif',
            'level_claimed': {'category': level, 'text': text, 'design_ref': f'DESIGN.md section {ref}'},
            'level_note': note,
            'technique': tech,
        })
    na = [{'property_id': pid, 'reason': PENDING.get(pid, 'check not built yet in this session (planned, see DESIGN.md section 4); not claimed until it exists')}
          for pid in ALL if pid not in CHECKS]
    man = {
        'version': 1,
        'setup_cmd': './check selftest',
        'hooks': {
            'guard': 'KINGDON_VERIF',
            'enable': 'no source hooks are needed: the checks observe kingdon from outside (builtins.compile, module attributes, '
                      'sys.settrace, the wrapper= option); KINGDON_VERIF=1 is exported by the runner but read by nothing in /repo',
            'baseline_off_cmd': 'cd /repo && env -u KINGDON_VERIF /venv/bin/python -m pytest -q -p no:cacheprovider --timeout=900',
            'source_commits': [],
            'add_only': True,
        },
        'engines': [
            {'name': 'kverif', 'path': '/verif/kverif', 'serves_properties': [c['property_id'] for c in checks],
             'kind_free_text': 'hand-written bounded exhaustive explorers in Python: program/configuration enumerators with a generic-point '
                               'value domain, explicit-state BFS over call histories of a live Algebra, deterministic thread scheduler with '
                               'iterative preemption bounding'},
        ],
        'checks': checks,
        'notes': 'All checks run against /repo (override with KINGDON_REPO for scratch worktrees). Exit 2 = framework error, never a verdict.',
        'not_applicable': na,
    }
    with open(os.path.join(ROOT, 'MANIFEST.json'), 'w') as f:
        json.dump(man, f, indent=1)
    print('MANIFEST.json written:', len(checks), 'checks,', len(na), 'not claimed')


if __name__ == '__main__':
    main()
